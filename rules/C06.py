"""C06 Client connection reuse never mixes responses (DESIGN 5/C06)."""
from __future__ import annotations

import ast

from sa import match as M, norm, pc as PC, prog, rulekit as K
from sa.cfg import CANCEL, EXPLICIT, cfg_of
from sa.loader import AnalysisError

CONN = "aiohttp/connector.py"
PROTO = "aiohttp/client_proto.py"
REQ = "aiohttp/client_reqrep.py"
CLIENT = "aiohttp/client.py"

DIRTY = [
    ("_should_close", "self._should_close", "latched by errors / Connection: close"),
    ("_payload", "self._payload.is_eof()", "response body not fully read"),
    ("_upgraded", "self._upgraded", "connection switched protocols"),
    ("_exception", "self._exception is not None", "connection failed"),
    ("_payload_parser", "self._payload_parser is not None", "websocket parser attached"),
    ("_buffer", "self._buffer", "messages parsed but not delivered (surplus / unsolicited responses)"),
    ("_tail", "self._tail", "bytes received outside an exchange"),
]


def run(chk):
    repo = chk.repo
    chk.explanation = (
        "Decided structurally: a connection enters the pool only under not(force_close or should_close argument or protocol.should_close) "
        "and leaves it for reuse only when connected, young enough and - required, see known finding - not should_close; the should_close "
        "predicate covers every dirty-state field; failure setters latch it; a fresh response parser is installed unconditionally before "
        "each request is sent; the pool key covers host, port, TLS flag, ssl object, proxy, proxy headers and server_hostname in both "
        "request classes; every exit after a connection was acquired closes it unless the response is handed out; redirect error exits "
        "close, redirect continues release."
    )
    chk.not_decided = "that the response parser consumes exactly one response's bytes (C03/C10), timing of bytes relative to release (covered only through the predicate re-evaluation)."
    chk.explanation += " After the defect hunt: every await of the request writer task before the body is complete closes the connection on cancellation; a 101 latches should_close; input buffered inside the parser counts for should_close."
    chk.explanation += " Round 4 / second hunt: end-of-body only at message completion; only a 101 switches the parser to upgraded mode; a dirty idle connection closes itself (idle flag) or is re-checked at reuse; `Connection: close` requests and short request bodies make the connection non-reusable; _request() closes a started response it does not return."
    bc = repo.cls(CONN, "BaseConnector")
    rel = repo.func(CONN, "BaseConnector._release")
    get = repo.func(CONN, "BaseConnector._get")
    rh = repo.cls(PROTO, "ResponseHandler")

    # ---- C06.release -------------------------------------------------------------------------------------
    apps = K.exprs(rel, "self._conns[$K].append($X)")
    if not apps:
        raise AnalysisError("C06.release: pool insertion not found in BaseConnector._release")
    for call, b in apps:
        K.require_lits(chk, "C06.release", call, [("self._force_close", False, "connector does not force-close"), ("should_close", False, "caller did not ask to close"),
                                                   ("$P.should_close", False, "the protocol is clean")], "a connection is pooled only when it is reusable")
    pool_writers = prog.writers(repo, [CONN], "_conns")
    inserts = [(f, n) for f, hits in pool_writers.items() for n, k in hits if k in ("call:append", "call:appendleft", "call:extend", "call:insert")]
    if {f.qualname for f, _n in inserts} <= {"BaseConnector._release"}:
        chk.ok("C06.release", rel, "BaseConnector._release is the only place that inserts into the pool")
    else:
        for f, n in inserts:
            if f.qualname != "BaseConnector._release":
                chk.violation("C06.release", n, K.short(n), f"insertion from {f.qualname}", "a connection enters the pool outside _release() (reuse predicate bypassed)")

    hunt2_rules(chk, repo)
    hunt3_rules(chk, repo)
    hunt4_rules(chk, repo)
    round6_rules(chk, repo)
    hunt5_rules(chk, repo)
    # ---- C06.eofdone (shared with C02) ------------------------------------------------------------------
    eof_at_completion(chk, repo)

    # ---- C06.reacquire -------------------------------------------------------------------------------------
    adds = K.exprs(get, "self._acquired.add($P)")
    if not adds:
        raise AnalysisError("C06.reacquire: `self._acquired.add(proto)` not found in BaseConnector._get")
    for call, b in adds:
        p = norm.raw(b["P"])
        K.require_lits(chk, "C06.reacquire", call, [(f"{p}.is_connected()", True, "transport still open")], "a pooled connection is reused only if still connected")
        # the clause that bounds the idle time: `t1 - t0 <= timeout`, alone or together with `timeout is None` (no expiry configured)
        within = [("$A - $B > self._keepalive_timeout", False), ("$A - $B <= self._keepalive_timeout", True)]
        bound = None
        for cl in PC.pc(call):
            kinds = ["within" if any(l.pos == pos and M.match_text(pat, l.text) is not None for pat, pos in within)
                     else "unset" if l.pos and l.text == "self._keepalive_timeout is None" else "other" for l in cl]
            if "within" in kinds and "other" not in kinds:
                bound = cl
        if bound is not None:
            chk.ok("C06.reacquire", call, "a pooled connection is reused only within the keep-alive timeout: " + norm.fmt_cnf([bound]))
        else:
            chk.violation("C06.reacquire", call, K.short(call), "t1 - t0 <= self._keepalive_timeout", "a pooled connection is reused only within the keep-alive timeout: the idle time is not compared with the timeout on every path to this statement",
                          path_condition=norm.fmt_cnf(PC.pc(call)))
        # the reuse predicate holds again at the moment of reuse: either _get() re-evaluates it, or nothing can change it unnoticed while the
        # connection idles - the connector marks the pooled protocol idle and the protocol closes itself when input leaves it dirty
        # (then `is_connected()` above is false)
        if _idle_watch(repo, get, rel, p):
            chk.ok("C06.reacquire", call, "while pooled the protocol is marked idle, and data_received() closes an idle connection that input left in should_close state: a dirty connection is never `connected` at reuse")
        else:
            K.require_lits(chk, "C06.reacquire", call, [(f"{p}.should_close", False, "state may have changed while idle: unsolicited bytes, peer close, error")],
                           "the reuse predicate is re-evaluated at the moment of reuse")
        # provenance: the protocol comes out of self._conns
        src = [d for d in norm.fn_defs(get.node).def_nodes(p)]
        if any("popleft" in norm.raw(d) or "pop(" in norm.raw(d) for d in src) and M.contains(K._root(get), "self._conns.get($K)"):
            chk.ok("C06.reacquire", call, f"`{p}` is taken from self._conns[key]")
        else:
            chk.violation("C06.reacquire", call, K.short(call), "protocol taken from self._conns[key]", "cannot relate the acquired protocol to the pool entry of this key")
    # dead pooled connections are closed, not kept
    cl = K.exprs(get, "proto.close()")
    if cl:
        chk.ok("C06.reacquire", cl[0][0], "a pooled connection that cannot be reused is closed")
    else:
        chk.violation("C06.reacquire", get, "proto.close()", "close of unusable pooled connection", "unusable pooled connections are dropped without closing")

    # ---- C06.predicate ---------------------------------------------------------------------------------------
    sc = repo.func(PROTO, "ResponseHandler.should_close")
    rets = [n for n in ast.walk(sc.node) if isinstance(n, ast.Return)]
    if len(rets) != 1:
        chk.violation("C06.predicate", sc, "should_close", "single returned disjunction", "should_close has several exits: cannot establish that every dirty field forces a close")
    else:
        v = rets[0].value
        if isinstance(v, ast.Call) and isinstance(v.func, ast.Name) and v.func.id == "bool":
            v = v.args[0]
        disj = v.values if isinstance(v, ast.BoolOp) and isinstance(v.op, ast.Or) else [v]
        texts = [norm.raw(d) for d in disj]
        for field, needle, why in DIRTY:
            hit = [t for t in texts if needle in t]
            if hit:
                chk.ok("C06.predicate", rets[0], f"should_close covers `{field}` ({why}): `{hit[0]}`")
            else:
                chk.violation("C06.predicate", rets[0], "return bool(... or ...)", needle, f"should_close ignores `{field}` ({why}): such a connection is pooled and its stale state reaches the next request")
        # payload clause polarity: dirty when payload present and NOT at eof
        pay = [d for d in disj if "self._payload" in norm.raw(d) and "is_eof" in norm.raw(d)]
        if pay:
            cn = norm.cnf_raw(pay[0], True)
            if any(l.text == "self._payload.is_eof()" and not l.pos for c in cn for l in c) and any(l.text == "self._payload is None" and not l.pos for c in cn for l in c):
                chk.ok("C06.predicate", rets[0], "payload clause: present and not at EOF")
            else:
                chk.violation("C06.predicate", rets[0], norm.raw(pay[0]), "self._payload is not None and not self._payload.is_eof()", "payload clause has the wrong polarity")
    # ---- C06.latch --------------------------------------------------------------------------------------------
    for q in ("ResponseHandler.set_exception", "ResponseHandler.force_close", "ResponseHandler.connection_lost"):
        f = repo.func(PROTO, q)
        g = cfg_of(f.node)
        path = g.find_path([g.entry], lambda n: n is g.exit, lambda n: K.node_has(n, "self._should_close = True", "exec"), EXPLICIT)
        if path is None:
            chk.ok("C06.latch", f, f"{q}(): every returning path sets _should_close = True")
        else:
            chk.violation("C06.latch", f, q, "self._should_close = True", f"{q}() can return without latching should_close: a failed/lost connection may be pooled", path=g.fmt_path(path))
    # per-message latch in data_received
    dr = repo.func(PROTO, "ResponseHandler.data_received")
    lat = [s for s, _b in K.stmts(dr, "self._should_close = True")]
    if any(PC.has_lit(PC.pc(l), "message.should_close", True) is not None for l in lat):
        chk.ok("C06.latch", lat[0], "a response that asks to close latches should_close")
    else:
        chk.violation("C06.latch", dr, "if message.should_close: self._should_close = True", "latch", "a response with Connection: close does not prevent reuse")
    # a 101 that names a new protocol ends HTTP on this connection whether or not the parser recognises the protocol as an upgrade it supports
    if any(PC.has_lit(PC.pc(l), "message.code == 101", True) is not None for l in lat):
        chk.ok("C06.latch", lat[-1], "a 101 Switching Protocols response latches should_close (the connection now speaks another protocol)")
    else:
        chk.violation("C06.latch", dr, "self._should_close = True", "(message.code == 101)",
                      "a `101 Switching Protocols` for a protocol the parser does not treat as an upgrade (anything but websocket/tcp with `Connection: upgrade`) is delivered as an ordinary bodiless response and the connection is pooled: the next request is written into the switched connection and answered with the other protocol's bytes")
    # bytes held inside the parser (start of another message) count as undelivered input
    sc = repo.func(PROTO, "ResponseHandler.should_close")
    if any(isinstance(n, ast.Attribute) and n.attr in ("has_pending_data", "_lines") and "_parser" in norm.raw(n.value) for n in ast.walk(sc.node)):
        chk.ok("C06.predicate", sc, "should_close also looks at input buffered inside the parser (a partial message head beyond the end of the response)")
    else:
        chk.violation("C06.predicate", sc, "should_close", "self._parser.has_pending_data",
                      "surplus bytes that the parser buffered as the start of another head (`...HTTP/1.1 200 OK\\r\\nX-Stale: y`) are invisible to should_close: the connection is pooled, the old parser is discarded with those bytes on reuse, and when the rest of the stale message arrives the next request fails with `Bad status line`")

    # ---- C06.fresh -------------------------------------------------------------------------------------------------
    srp = repo.func(PROTO, "ResponseHandler.set_response_params")
    news = [s for s, _b in K.stmts(srp, "self._parser = HttpResponseParser(...)")]
    if not news:
        chk.violation("C06.fresh", srp, "self._parser = HttpResponseParser(...)", "fresh parser", "set_response_params() does not install a response parser")
    else:
        extra = PC.pc(news[0])
        if extra:
            chk.violation("C06.fresh", news[0], K.short(news[0], 50), norm.fmt_cnf(extra), "the response parser is replaced only conditionally: partial bytes buffered by the old parser are prepended to the next response")
        else:
            chk.ok("C06.fresh", news[0], "every request gets a fresh response parser, unconditionally")
    cs = repo.func(CLIENT, "_connect_and_send_request")
    sends = K.nodes_matching(cs, "req._send($C)")
    if sends:
        K.must_pass(chk, "C06.fresh", cs, [cfg_of(cs.node).entry], lambda n: K.node_has(n, "$P.set_response_params(...)"), "the parser is installed before the request is sent",
                    targets=lambda n: n in sends, construct="await req._send(conn)", missing="conn.protocol.set_response_params(...)")
    else:
        raise AnalysisError("C06.fresh: req._send(conn) not found")

    # ---- C06.key -------------------------------------------------------------------------------------------------------
    ck = repo.cls(REQ, "ConnectionKey")
    fields = [s.target.id for s in ck.node.body if isinstance(s, ast.AnnAssign)]
    want = ["host", "port", "is_ssl", "ssl", "proxy", "proxy_headers_hash", "server_hostname"]
    if fields == want:
        chk.ok("C06.key", ck.node, f"ConnectionKey fields = {fields}")
    else:
        chk.violation("C06.key", ck.node, "ConnectionKey", f"fields {fields}", f"pool key no longer has the fields {want}")
    need = [("raw_host", "url.raw_host"), ("port", "url.port"), ("tls", "url.scheme in _SSL_SCHEMES"), ("ssl", "self._ssl"), ("proxy", None), ("proxy headers", None), ("server_hostname", "self.server_hostname")]
    for q, proxy_needed in (("ClientRequestBase.connection_key", False), ("ClientRequest.connection_key", True)):
        f = repo.func(REQ, q)
        tup = [b["T"] for _c, b in K.exprs(f, "tuple.__new__(ConnectionKey, $T)")]
        if not tup or not isinstance(tup[0], ast.Tuple) or len(tup[0].elts) != 7:
            chk.violation("C06.key", f, q, "7-tuple", f"{q} does not build a 7-element ConnectionKey")
            continue
        el = [norm.text(e, e) for e in tup[0].elts]
        bad = []
        for i, (nm, needle) in enumerate(need):
            if needle is not None and needle not in el[i]:
                bad.append(f"{nm}: `{el[i]}`")
        # every element reads its setting unconditionally: a key element that is replaced by a constant for some requests (`self._ssl if is_ssl
        # else True`) pools connections that differ in that setting (the TLS settings of a plain-http request are those of its https proxy)
        for i, (nm, needle) in enumerate(need):
            e = tup[0].elts[i]
            full = ast.parse(el[i], mode="eval").body
            if i != 5 and any(isinstance(x, ast.IfExp) or (isinstance(x, ast.BoolOp) and not (i == 0 and isinstance(x.op, ast.Or) and isinstance(x.values[-1], ast.Constant))) for x in ast.walk(full)):
                bad.append(f"{nm}: `{el[i]}` (conditional)")
            elif needle is not None and i in (1, 3, 6) and el[i].replace(" ", "") not in (needle.replace(" ", ""), "self." + needle.replace(" ", "")):
                bad.append(f"{nm}: `{el[i]}` (not the plain setting `{needle}`)")
        if proxy_needed:
            if "self.proxy" not in el[4]:
                bad.append(f"proxy: `{el[4]}`")
            if "proxy_headers" not in el[5] and "proxy_headers" not in norm.raw(f.node):
                bad.append(f"proxy headers: `{el[5]}`")
            hdef = [d for d in norm.fn_defs(f.node).def_nodes(norm.raw(tup[0].elts[5]))]
            if not any("proxy_headers" in norm.raw(d) for d in hdef):
                bad.append(f"proxy headers hash `{el[5]}` not derived from proxy_headers")
        if bad:
            chk.violation("C06.key", f, q, "; ".join(bad), "the pool key does not distinguish connections that differ in " + ", ".join(x.split(":")[0] for x in bad))
        else:
            chk.ok("C06.key", f, f"{q}: key elements read host, port, scheme-is-TLS, ssl, proxy, proxy-headers hash, server_hostname")
    conn = repo.func(CONN, "BaseConnector.connect")
    k0 = norm.fn_defs(conn.node).defs.get("key", [])
    if len(k0) == 1 and norm.raw(k0[0][1]) == "req.connection_key":
        chk.ok("C06.key", k0[0][0], "connect() uses req.connection_key for pool lookup, accounting and the Connection handle")
    else:
        chk.violation("C06.key", conn, "key = req.connection_key", "single key", "connect() derives the pool key differently")

    # ---- C06.closeonerror ---------------------------------------------------------------------------------------------------
    g = cfg_of(cs.node)
    acq = [n for n in g.nodes if K.node_has(n, "$C.connect(req, ...)")]
    if not acq:
        raise AnalysisError("C06.closeonerror: connector.connect(...) not found")
    K.must_pass(chk, "C06.closeonerror", cs, acq,
                lambda n: K.node_has(n, "conn.close()") or (n.kind == "stmt" and isinstance(n.ast, ast.Return) and norm.raw(n.ast.value) == "resp"),
                "after a connection was acquired every exit (cancellation at any await included) closes it unless the response is returned", model=CANCEL,
                start_edges=[(a, "n") for a in acq], construct="conn = await connector.connect(...)", missing="conn.close()")
    # response failing to start closes the response
    st = K.nodes_matching(cs, "resp.start($C)")
    if st:
        hs = [h for _t, h in K.enclosing_try_handlers(st[0].ast if not isinstance(st[0].ast, ast.Expr) else st[0].ast.value)]
        if any("BaseException" in PC.handler_types(h) and M.contains(h, "resp.close()") for h in hs):
            chk.ok("C06.closeonerror", st[0].ast, "a response whose start() fails is closed")
        else:
            chk.violation("C06.closeonerror", st[0].ast, "await resp.start(conn)", "except BaseException: resp.close()", "a response that fails/cancels while reading headers is not closed")
    # the same for the caller of that helper: once _request() holds a started response, every exit that does not hand it to the caller
    # closes (or releases) it - the caller cannot close what it never received
    rqf = repo.func(CLIENT, "ClientSession._request")
    g2 = cfg_of(rqf.node)
    got = [n for n in g2.nodes if n.in_finally_copy is None and n.kind == "stmt" and isinstance(n.ast, ast.Assign) and norm.raw(n.ast.targets[0]) == "resp" and isinstance(n.ast.value, ast.Await)]
    if not got:
        chk.analysis_error("C06.closeonerror: `resp = await handler(req)` not found in ClientSession._request")
    else:
        # `if resp is not None: resp.close()`: on a path that starts after the assignment the test is true
        guards = {id(i.test) for i in ast.walk(rqf.node) if isinstance(i, ast.If) and norm.raw(i.test) == "resp is not None" and any(M.contains(b_, "resp.close()") for b_ in i.body)}
        K.must_pass(chk, "C06.closeonerror", rqf, None,
                    lambda n: K.node_has(n, "resp.close()") or K.node_has(n, "resp.release()") or (n.kind == "test" and id(n.ast) in guards)
                    or (n.kind == "stmt" and isinstance(n.ast, ast.Return) and n.ast.value is not None and norm.raw(n.ast.value) == "resp"),
                    "once _request() holds a started response every exit (cancellation at any await included) closes or releases it unless it is returned", model=CANCEL,
                    start_edges=[(a, "n") for a in got], construct="resp = await handler(req)", missing="resp.close() in `except BaseException`")
    rclose = repo.func(REQ, "ClientResponse.close")
    cc = K.exprs(rclose, "self._connection.close()")
    if cc and {str(l) for l in PC.units(PC.pc(cc[0][0]))} <= {"!(self._connection is None)", "!(self._loop.is_closed())"}:
        chk.ok("C06.closeonerror", cc[0][0], "ClientResponse.close() closes (never releases) its connection")
    else:
        chk.violation("C06.closeonerror", rclose, "self._connection.close()", "close", "ClientResponse.close() does not close the connection")
    if K.exprs(rclose, "self._connection.release()"):
        chk.violation("C06.closeonerror", rclose, "self._connection.release()", "release in close()", "ClientResponse.close() returns the connection to the pool")
    rread = repo.func(REQ, "ClientResponse.read")
    aw = [a for a in prog.awaits_in(rread.node) if "content.read" in norm.raw(a)]
    if aw and any("BaseException" in PC.handler_types(h) and M.contains(h, "self.close()") for _t, h in K.enclosing_try_handlers(aw[0])):
        chk.ok("C06.closeonerror", aw[0], "a body read that fails or is cancelled closes the response (connection not reused)")
    else:
        chk.violation("C06.closeonerror", rread, "await self.content.read()", "except BaseException: self.close()", "a failed/cancelled body read leaves the connection reusable")
    wb = repo.func(REQ, "ClientRequest._write_bytes")
    aw = [a for a in prog.awaits_in(wb.node) if "write_with_length" in norm.raw(a)]
    if aw:
        hs = [h for _t, h in K.enclosing_try_handlers(aw[0])]
        canc = [h for h in hs if "asyncio.CancelledError" in PC.handler_types(h)]
        uncond = canc and [c for c, _b in M.find(canc[0], "conn.close()") if not [l for l in PC.units(PC.pc(c, stop=canc[0])) if not l.text.startswith("EXCEPT(")] and all(len(cl) == 1 for cl in PC.pc(c, stop=canc[0]))]
        if canc and uncond and isinstance(canc[0].body[-1], ast.Raise):
            chk.ok("C06.closeonerror", canc[0], "a cancelled body write closes the connection")
        else:
            chk.violation("C06.closeonerror", aw[0], K.short(aw[0]), "except asyncio.CancelledError: conn.close(); raise", "a request whose body was only partly sent leaves its connection reusable")
        # ... and so does a cancellation at any earlier await of the writer task (waiting for `100 Continue`, draining the headers): the
        # headers announce a body, nothing of it was sent, the connection must not go back to the pool
        for a in prog.awaits_in(wb.node):
            if a is aw[0] or any(isinstance(t, ast.Try) and prog.in_body_of(a, t, "orelse") for t in prog.enclosing(a, (ast.Try,))):
                continue  # the body itself (checked above) / after the body was written completely
            hs2 = [h for _t, h in K.enclosing_try_handlers(a) if {"asyncio.CancelledError", "BaseException"} & set(PC.handler_types(h)) or h.type is None]
            if hs2 and any(M.contains(h, "conn.close()") for h in hs2):
                chk.ok("C06.closeonerror", a, f"_write_bytes: a cancellation at `{K.short(a, 40)}` closes the connection")
            else:
                chk.violation("C06.closeonerror", a, K.short(a, 60), "except asyncio.CancelledError: conn.close(); raise",
                              "the writer task can be cancelled here (the peer answered with a final status instead of `100 Continue`, so the response finished first) without closing the connection: it returns to the pool with a declared body of which nothing was sent, and the next request written on it is read by the server as that body")
        for h in hs:
            t = PC.handler_types(h)
            if t in (["OSError"], ["Exception"]):
                if M.contains(h, "set_exception(protocol, ...)"):
                    chk.ok("C06.closeonerror", h, f"write failure ({t[0]}) is recorded on the protocol (latches should_close)")
                else:
                    chk.violation("C06.closeonerror", h, f"except {t[0]}", "set_exception(protocol, ...)", "a failed body write is not recorded on the connection")
    else:
        raise AnalysisError("C06.closeonerror: body write await not found in _write_bytes")
    # redirects: error exits close, continues release
    req = repo.func(CLIENT, "ClientSession._request")
    red = [i for i in ast.walk(req.node) if isinstance(i, ast.If) and "resp.status in (301, 302, 303, 307, 308)" in norm.raw(i.test)]
    if not red:
        raise AnalysisError("C06.closeonerror: redirect branch not found in _request")
    nr = nc = 0
    for n in ast.walk(red[0]):
        if isinstance(n, (ast.Raise, ast.Continue)):
            blk = PC._block_of(n)
            prior = blk[: blk.index(n)]
            if isinstance(n, ast.Raise):
                # a raise that a handler of the same function catches is no exit (the handler's own raise is looked at)
                cls_ = K.raise_class(n)
                if cls_ and any(prog.in_body_of(n, t_, "body") and cls_ in PC.handler_types(h_) for t_, h_ in K.enclosing_try_handlers(n)):
                    continue
                nr += 1
                if any(M.contains(p, "resp.close()") for p in prior):
                    chk.ok("C06.closeonerror", n, f"redirect error exit `{K.short(n, 40)}` closes the response first")
                else:
                    chk.violation("C06.closeonerror", n, K.short(n), "resp.close()", "a redirect error exit leaves the intermediate response's connection open / pooled half-read")
            else:
                nc += 1
                if any(M.contains(p, "resp.release()") for p in prior):
                    chk.ok("C06.closeonerror", n, "the redirect `continue` releases the intermediate response")
                else:
                    chk.violation("C06.closeonerror", n, "continue", "resp.release()", "the next hop starts while the intermediate response still holds its connection")
    chk.expect_count("C06.closeonerror", nr, 5, "raise sites in the redirect branch")
    chk.expect_count("C06.closeonerror", nc, 1, "continue in the redirect branch")


def eof_at_completion(chk, repo, rule="C06.eofdone"):
    """HttpPayloadParser.feed_data signals end-of-body to the stream only as the last act of the message: on every path the signal is
    followed by `return PAYLOAD_COMPLETE, <rest>` with no further parsing state in between.  The stream's EOF is what releases a client
    connection to the pool / lets a server start the next request, so input of *this* message must not be outstanding after it."""
    HPM = "aiohttp/http_parser.py"
    pp = repo.cls(HPM, "HttpPayloadParser")
    fd = pp.methods["feed_data"]
    helpers = {name for name, m in pp.methods.items() if name not in ("feed_data", "feed_eof", "__init__") and K.exprs(m, "self.payload.feed_eof()")}
    g = cfg_of(fd.node)
    def signals(n):
        if not isinstance(n.ast, ast.AST):
            return False
        if K.node_has(n, "self.payload.feed_eof()"):
            return True
        return any(isinstance(c.func, ast.Attribute) and isinstance(c.func.value, ast.Name) and c.func.value.id == "self" and c.func.attr in helpers for c in K.node_calls(n))
    starts = [n for n in g.nodes if n.in_finally_copy is None and signals(n)]
    def complete(n):
        return n.kind == "stmt" and isinstance(n.ast, ast.Return) and n.ast.value is not None and norm.raw(n.ast.value).replace(" ", "").startswith(("(PayloadState.PAYLOAD_COMPLETE,", "PayloadState.PAYLOAD_COMPLETE,"))
    for s0 in starts:
        K.must_pass(chk, rule, fd, [s0], complete,
                    "end-of-body is signalled to the stream only when the whole message (trailer section and final CRLF included) has been consumed: the stream's EOF releases the connection for the next exchange, bytes of this message still outstanding would be read as the start of the next response",
                    construct=K.short(s0.ast), missing="return PayloadState.PAYLOAD_COMPLETE, <rest> right after payload.feed_eof()")
    chk.expect_count(rule, len(starts), 3, "end-of-body signals in HttpPayloadParser.feed_data")


def _idle_watch(repo, get, rel, p: str) -> bool:
    """The idle-flag protocol: _release() sets `<proto>.idle = True` on the path that pools the connection, _get() clears it before the
    connection is handed out, and every normal exit of ResponseHandler.data_received() passes `if self.idle and self.should_close: close()`."""
    sets = [s_ for s_ in ast.walk(rel.node) if isinstance(s_, ast.Assign) and isinstance(s_.targets[0], ast.Attribute) and s_.targets[0].attr == "idle" and isinstance(s_.value, ast.Constant) and s_.value.value is True]
    clears = [s_ for s_ in ast.walk(get.node) if isinstance(s_, ast.Assign) and isinstance(s_.targets[0], ast.Attribute) and s_.targets[0].attr == "idle" and norm.raw(s_.targets[0].value) == p and isinstance(s_.value, ast.Constant) and s_.value.value is False]
    if not sets or not clears:
        return False
    apps = K.exprs(rel, "self._conns[$K].append($X)")
    if not apps or not all(any(s_.lineno < c.lineno and PC._block_of(s_) is not None and K.stmt_of(c) in (PC._block_of(s_) or []) for s_ in sets) for c, _b in apps):
        return False
    dr = repo.func(PROTO, "ResponseHandler.data_received")
    g = cfg_of(dr.node)
    watch = [n for n in g.nodes if n.kind == "test" and n.in_finally_copy is None and "self.idle" in norm.raw(n.ast) and "self.should_close" in norm.raw(n.ast)]
    if not watch:
        return False
    wi = [i for i in ast.walk(dr.node) if isinstance(i, ast.If) and any(i.test is w.ast for w in watch)]
    if not wi or not any(M.contains(b_, "self.close()") or M.contains(b_, "self.abort()") or M.contains(b_, "self.transport.close()") for i in wi for b_ in i.body):
        return False
    # no normal continuation of the HTTP parser call avoids the watch (its failure path closes the transport and records the error)
    feeds = [n for n in g.nodes if n.in_finally_copy is None and isinstance(n.ast, ast.AST) and K.node_has(n, "self._parser.feed_data(...)")]
    if not feeds:
        return False
    pth = g.find_path(None, lambda n: n.kind == "exit" or (n.kind == "stmt" and isinstance(n.ast, ast.Return)), lambda n: n in watch, EXPLICIT, [(f, "n") for f in feeds])
    return pth is None


def hunt3_rules(chk, repo):
    """Rule written after the third defect hunt (F208): the idle watch covers the whole time in which no request is on the wire."""
    # Bytes that arrive while nothing was asked for are unsolicited.  The watch in data_received() acts only while `idle` is set, so the flag has
    # to stay set over every suspension point between taking the connection out of the pool and writing the request head: the trace callbacks
    # awaited by _get() (on_connection_reuseconn) and by write_headers() (on_request_headers_sent).
    get = repo.func(CONN, "BaseConnector._get")
    g = cfg_of(get.node)
    clears = [n for n in g.nodes if n.kind == "stmt" and isinstance(n.ast, ast.Assign) and isinstance(n.ast.targets[0], ast.Attribute) and n.ast.targets[0].attr == "idle" and isinstance(n.ast.value, ast.Constant) and n.ast.value.value is False]
    if not clears:
        chk.analysis_error("C06.reacquire.window: `<proto>.idle = False` not found in BaseConnector._get")
    else:
        awaits_ = [n for n in g.nodes if n.ast is not None and n.kind in ("stmt", "test", "for") and any(isinstance(a, ast.Await) for a in ast.walk(n.ast)) and not isinstance(n.ast, (ast.FunctionDef, ast.AsyncFunctionDef))]
        rets = [n for n in g.nodes if n.kind == "stmt" and isinstance(n.ast, ast.Return) and n.ast.value is not None and "Connection(" in norm.raw(n.ast.value)]
        # no clear may be followed by a suspension before the connection is handed out: from every clear, a path to an await that then reaches the return
        p = g.find_path(clears, lambda n: n in rets, lambda n: False, EXPLICIT)
        via = []
        for c_ in clears:
            pa = g.find_path([c_], lambda n: n in awaits_ and not isinstance(n.ast, ast.Return), lambda n: n in rets, EXPLICIT)
            if pa is not None and g.find_path([pa[-1]], lambda n: n in rets, lambda n: False, EXPLICIT) is not None:
                via.append(pa[-1])
                p = pa
        if p is not None and not via:
            # and the connection is looked at again after the last suspension
            recheck = [n for n in g.nodes if n.kind == "test" and "is_connected()" in norm.raw(n.ast)]
            last_aw = max((n.ast.lineno for n in awaits_ if n.ast.lineno < clears[0].ast.lineno and not isinstance(n.ast, ast.Return)), default=0)
            if any(last_aw < r.ast.lineno <= clears[0].ast.lineno for r in recheck) or not last_aw:
                chk.ok("C06.reacquire.window", clears[0].ast, "_get(): the connection stays idle (watched) while the reuse trace callbacks run, is re-tested after them, and is handed out without a further suspension")
            else:
                chk.violation("C06.reacquire.window", clears[0].ast, K.short(clears[0].ast), "if not proto.is_connected(): release and take the next one",
                              "_get() awaits the reuse trace callbacks and hands the connection out without looking at it again: the watch may have closed it meanwhile")
        else:
            chk.violation("C06.reacquire.window", clears[0].ast, K.short(clears[0].ast), "proto.idle = False after the last await of _get()",
                          "_get() clears the idle flag and then awaits the on_connection_reuseconn trace callbacks: a response the peer pushes while a callback is suspended is no longer caught by the idle watch, it is queued and handed to the request that has not been written yet - and the real answer shifts to the next request",
                          path=g.fmt_path(p) if p else "")
    sd = repo.func(REQ, "ClientRequestBase._send")
    gs = cfg_of(sd.node)
    wh = [n for n in gs.nodes if K.node_has(n, "writer.write_headers($S, $H)")]
    on = [n for n in gs.nodes if n.kind == "stmt" and norm.raw(n.ast) == "protocol.idle = True"]
    off = [n for n in gs.nodes if n.kind == "stmt" and norm.raw(n.ast) == "protocol.idle = False"]
    if not wh:
        chk.analysis_error("C06.reacquire.window: `await writer.write_headers(...)` not found in ClientRequestBase._send")
    elif not on or gs.find_path([gs.entry], lambda n: n in wh, lambda n: n in on, EXPLICIT) is not None:
        chk.violation("C06.reacquire.window", wh[0].ast, K.short(wh[0].ast), "protocol.idle = True before await writer.write_headers(...)",
                      "write_headers() awaits the on_request_headers_sent trace callbacks before a byte of the request is written; bytes received in that window are taken for this request's response")
    else:
        chk.ok("C06.reacquire.window", wh[0].ast, "_send(): the connection is marked idle before write_headers() awaits the on_request_headers_sent callbacks (nothing is on the wire yet)")
        # write_headers() only buffers the head (it is coalesced with the first body chunk): the mark is cleared where the buffered head is
        # handed to the transport, not when write_headers() returns
        early = gs.find_path(wh, lambda n: n in off, lambda n: False, EXPLICIT) if off else None
        HW = "aiohttp/http_writer.py"
        sw = repo.cls(HW, "StreamWriter")
        flushes = [(mn, a) for mn, m in sw.methods.items() for a in ast.walk(m.node) if isinstance(a, ast.Assign) and norm.raw(a) == "self._headers_written = True"]
        told = [(mn, a) for mn, a in flushes if any(isinstance(c, ast.Call) and norm.raw(c.func) == "self._on_head_written" for st_ in (PC._block_of(a) or []) for c in ast.walk(st_))]
        makers = [c for q_ in ("ClientRequestBase._create_writer", "ClientRequest._create_writer") for c in prog.calls_in(repo.func(REQ, q_).node) if norm.raw(c.func) == "StreamWriter"]
        wired = [c for c in makers if any(k.arg == "on_head_written" and "idle" in norm.raw(k.value) and "False" in norm.raw(k.value) for k in c.keywords)]
        if early is not None:
            chk.violation("C06.reacquire.window", off[0].ast, K.short(off[0].ast), "cleared by the writer when the head is handed to the transport (on_head_written)",
                          "_send() clears the idle mark as soon as write_headers() returns, but the head is only buffered until the first body chunk is ready: with a body producer that awaits first (async generator, on_request_chunk_sent callback, file read) a response pushed by the peer meanwhile is delivered as the answer to a request of which not a byte was sent",
                          path=gs.fmt_path(early))
        elif flushes and len(told) == len(flushes) and makers and len(wired) == len(makers):
            chk.ok("C06.reacquire.window", told[0][1], f"the idle mark is cleared by the writer at each of the {len(flushes)} places that hand the buffered head to the transport (both request writers pass the callback)")
        else:
            missing = [f"StreamWriter.{mn}" for mn, a in flushes if (mn, a) not in told] + [f"{K.short(c, 40)} without on_head_written" for c in makers if c not in wired]
            chk.violation("C06.reacquire.window", sw, "self._headers_written = True", "self._on_head_written() at every flush of the buffered head; on_head_written=<clear protocol.idle> in both _create_writer()",
                          "the idle mark set by _send() is never cleared on some path that writes the request head (" + "; ".join(missing or ["no flush site found"]) + "): the watch would close a connection whose request is on the wire, or the mark is cleared before the head is written")
        chk.expect_count("C06.reacquire.window", len(flushes), 4, "places where StreamWriter hands the buffered head to the transport")


def hunt4_rules(chk, repo):
    """Rule written after the fourth defect hunt (F218): the response parser's sibling of C01.te10."""
    from rules import C01
    C01.te10_rule(chk, repo.func("aiohttp/http_parser.py", "HttpResponseParser.parse_message"), "C06.te10", "response",
                  "the client pools a connection after an `HTTP/1.0 200` with `Connection: keep-alive` and `Transfer-Encoding: chunked`: an HTTP/1.0 relay that framed the message by close sends the rest of it as the answer to the next request on that connection (the request parser closes in the same situation)")


def hunt5_rules(chk, repo):
    """Rules written after the fifth defect hunt (F304, F305)."""
    # ---- C06.pool.timer: a connection goes into the pool without a running read timer ----------------------------------------------------------------------
    # A request writer that finishes after its response was complete (early answer to an upload) arms sock_read when nobody reads any more; the
    # connection is pooled, the timer fires on the idle connection and the next request on it fails with SocketTimeoutError at once.
    rel = repo.func(CONN, "BaseConnector._release")
    g = cfg_of(rel.node)
    pools = [n for n in g.nodes if n.in_finally_copy is None and n.kind == "stmt" and K.node_has(n, "self._conns[$K].append($X)")]
    drops = [n for n in g.nodes if n.kind == "stmt" and any(isinstance(c.func, ast.Attribute) and c.func.attr in ("_drop_timeout", "drop_timeout") for c in K.node_calls(n))]
    if not pools:
        chk.analysis_error("C06.pool.timer: the statement that pools the connection was not found in BaseConnector._release")
    else:
        p_ = g.find_path([g.entry], lambda n: n in pools, lambda n: n in drops, EXPLICIT)
        if p_ is None:
            chk.ok("C06.pool.timer", pools[0].ast, "_release(): the protocol's read timer is dropped before the connection is pooled")
        else:
            chk.violation("C06.pool.timer", pools[0].ast, K.short(pools[0].ast), "protocol._drop_timeout() before the connection is pooled",
                          "a POST with a streamed body is answered early with a complete keep-alive response; the last body chunk is written after the response was parsed and _write_bytes() ends with start_timeout(): the connection is pooled with sock_read armed, the timer fires while it idles and the next request on it raises SocketTimeoutError 1 ms after it started, on a healthy connection", path=g.fmt_path(p_))
    # ---- C06.idle.new: a new connection is watched like a pooled one until its first request head is written ----------------------------------------------------
    init = repo.func(CONN, "BaseConnector.__init__")
    fdefs = [a.value for a in ast.walk(init.node) if isinstance(a, ast.Assign) and norm.raw(a.targets[0]) == "self._factory"]
    ok_ = False
    if fdefs and isinstance(fdefs[0], ast.Call) and fdefs[0].args:
        made = fdefs[0].args[0]
        r_ = repo.resolve_name(repo.module(CONN), made.id) if isinstance(made, ast.Name) else None
        if r_ and r_[0] == "func":
            ok_ = any(isinstance(a, ast.Assign) and isinstance(a.targets[0], ast.Attribute) and a.targets[0].attr == "idle" and isinstance(a.value, ast.Constant) and a.value.value is True for a in ast.walk(r_[1].node))
        elif r_ and r_[0] == "class":
            ca = repo.class_attr(r_[1], "idle")
            ok_ = ca is not None and isinstance(ca[1], ast.Constant) and ca[1].value is True
    if not fdefs:
        chk.analysis_error("C06.idle.new: `self._factory = ...` not found in BaseConnector.__init__")
    elif ok_:
        chk.ok("C06.idle.new", fdefs[0], "the connector's protocol factory creates protocols marked idle: bytes that arrive before the first request head is written close the connection (C06.idle.input)")
    else:
        chk.violation("C06.idle.new", fdefs[0], K.short(fdefs[0]), "a factory that sets proto.idle = True",
                      "a brand-new protocol starts with idle=False: bytes a peer sends right after accept (before any request) are parked in _tail and replayed into the parser of the first request - `GET /a` returns the greeting as its response although the server got the request head 50 ms after it had sent those bytes; the watch that closes re-acquired connections never sees a new one")


def round6_rules(chk, repo):
    """Rule written after seeding round 6 (F273, reported by a seed writer on the unchanged tree): input on an idle connection has no effect but
    closing it.  The watch of C06.reacquire acts on the state the input leaves behind; input that leaves none (a stray CRLF the response parser
    skips) kept the connection pooled and had already started the sock_read timer, which then failed the next request on that connection."""
    rule = "C06.idle.input"
    dr = repo.func(PROTO, "ResponseHandler.data_received")
    g = cfg_of(dr.node)
    arg = dr.node.args.args[1].arg if len(dr.node.args.args) > 1 else "data"
    def effect(n):
        if n.in_finally_copy is not None or not isinstance(getattr(n, "ast", None), ast.AST) or n.kind not in ("stmt", "test"):
            return False
        for c in K.node_calls(n):
            f = norm.raw(c.func)
            if f.endswith(".feed_data") or f in ("self._reschedule_timeout", "self._loop.call_later", "self._loop.call_at", "self.start_timeout"):
                return True
        return n.kind == "stmt" and isinstance(n.ast, (ast.Assign, ast.AugAssign)) and any(norm.raw(t) == "self._tail" for t in (n.ast.targets if isinstance(n.ast, ast.Assign) else [n.ast.target]))
    effects = [n for n in g.nodes if effect(n)]
    if len(effects) < 4:
        chk.analysis_error(f"{rule}: only {len(effects)} effects of input (timer, parser feeds, tail store) found in ResponseHandler.data_received, 4 were confirmed by hand")
        return
    def conjuncts(t):
        return [norm.raw(v) for v in t.values] if isinstance(t, ast.BoolOp) and isinstance(t.op, ast.And) else [norm.raw(t)]
    gates = [n for n in g.nodes if n.kind == "test" and n.in_finally_copy is None and "self.idle" in conjuncts(n.ast) and set(conjuncts(n.ast)) <= {"self.idle", arg, f"len({arg})", f"len({arg}) > 0", f"{arg} != b''"}]
    closing = lambda n: n.kind == "stmt" and (K.node_has(n, "self.close()") or K.node_has(n, "self.abort()") or K.node_has(n, "self.transport.close()") or K.node_has(n, "self.transport.abort()"))
    good = []
    for t in gates:
        leak = g.find_path(None, lambda n: n in effects, lambda n: False, EXPLICIT, start_edges=[(t, "T")])
        stays = g.find_path(None, lambda n: n.kind == "exit" or (n.kind == "stmt" and isinstance(n.ast, ast.Return)), closing, EXPLICIT, start_edges=[(t, "T")])
        if leak is None and stays is None:
            good.append(t)
    pth = g.find_path([g.entry], lambda n: n in effects, lambda n: n in good, EXPLICIT)
    if pth is None and good:
        chk.ok(rule, good[0].ast, f"data_received(): non-empty input on an idle connection closes it before any of the {len(effects)} effects of input (read timer, parser feeds, tail buffer)")
    else:
        chk.violation(rule, dr, K.short(effects[0].ast), f"if {arg} and self.idle: self.close(); return - before the timer is re-armed and the parser is fed",
                      "bytes that arrive on a pooled connection take effect: a stray CRLF after a response is skipped by the parser, so the idle watch sees a clean connection and keeps it pooled, but the bytes have started the sock_read timer - it fires on the idle connection and the next request that reuses it fails with SocketTimeoutError (and bytes outside an exchange did not retire the connection)",
                      path=g.fmt_path(pth) if pth else None)
    chk.expect_count(rule, len(effects), 4, "effects of input in ResponseHandler.data_received")


def hunt2_rules(chk, repo):
    """Rules written after the second defect hunt (F115-F118)."""
    HPM = "aiohttp/http_parser.py"
    # ---- C06.upgrade: only a 101 (or a request) switches the parser to upgraded mode -----------------------------------------------------
    fd = repo.func(HPM, "HttpParser.feed_data")
    ups = [s_ for s_ in ast.walk(fd.node) if isinstance(s_, ast.Assign) and norm.raw(s_.targets[0]) == "upgraded" and "msg.upgrade" in norm.raw(s_.value)]
    if not ups:
        chk.analysis_error("C06.upgrade: the `upgraded = msg.upgrade and ...` decision was not found in HttpParser.feed_data")
    for s_ in ups:
        if any(isinstance(c, ast.Constant) and c.value == 101 for c in ast.walk(s_.value)):
            chk.ok("C06.upgrade", s_, "a response switches the parser to upgraded mode only with status 101")
        else:
            chk.violation("C06.upgrade", s_, K.short(s_, 80), "msg.upgrade and code in (0, 101) and _is_supported_upgrade(msg.headers)",
                          "any response carrying `Connection: Upgrade` + `Upgrade: websocket` puts the response parser into upgraded mode: after a `426 Upgrade Required` with a body the connection is pooled with upgraded=True, and every byte of the next response is parked in ResponseHandler._tail - the next request times out")
    # ---- C06.reqclose: a request that says `Connection: close` is the last one on its connection (RFC 9112 9.6) --------------------------------
    sd = repo.func(REQ, "ClientRequestBase._send")
    fcs = [c for c in prog.calls_in(sd.node) if norm.raw(c.func) == "protocol.force_close"]
    guarded = [c for c in fcs if any("close" in l.text.lower() for cl_ in PC.pc(c, raw=True) for l in cl_) or any("hdrs.CONNECTION" in norm.raw(l_.iter) for l_ in K.loop_ancestors(c) if isinstance(l_, ast.For))]
    if guarded:
        chk.ok("C06.reqclose", guarded[0], "sending `Connection: close` marks the connection as not reusable")
    else:
        chk.violation("C06.reqclose", sd, "Connection: close", "protocol.force_close() when the request's Connection header contains `close`",
                      "the client announces `Connection: close` but pools the connection when the response does not echo the header: the next request (a POST is not retried) is written into a connection the server is closing and is lost with ServerDisconnectedError")
    # ---- C06.shortbody: a body shorter than its declared Content-Length leaves the request unfinished on the wire ------------------------------
    wb = repo.func(REQ, "ClientRequest._write_bytes")
    arm = [s_ for s_ in ast.walk(wb.node) if isinstance(s_, ast.Assign) and norm.raw(s_.targets[0]) == "writer.length"]
    chk_ = [c for c in prog.calls_in(wb.node) if norm.raw(c.func) == "protocol.force_close" and any("writer.length" in l.text for cl_ in PC.pc(c, raw=True) for l in cl_)]
    if arm and chk_:
        chk.ok("C06.shortbody", chk_[0], "the declared length is counted down while the body is written; bytes still outstanding at the end close the connection")
    else:
        chk.violation("C06.shortbody", wb, "await self._body.write_with_length(writer, content_length)", "writer.length = content_length ... if writer.length: protocol.force_close()",
                      "the declared Content-Length is enforced only as an upper bound: a body that ends early (a generator that stops, a wrong explicit header) leaves the request unfinished, and after an early answer (403/413/redirect) the connection is pooled - the server reads the next request as the missing body bytes")
    # the other way out of _send(): no body task at all (`else: writer.set_eof()`), although the head may declare a length (explicit header)
    sd_ = repo.func(REQ, "ClientRequestBase._send")
    g_ = cfg_of(sd_.node)
    seof = K.nodes_matching(sd_, "writer.set_eof()")
    swt = [n for n in g_.nodes if n.kind == "test" and M.contains(n.ast, "self._should_write($P)")]
    fcl = K.nodes_matching(sd_, "protocol.force_close()")
    clt = [n for n in g_.nodes if n.kind == "test" and M.contains(n.ast, "self._get_content_length()")]
    if not seof or not swt:
        chk.analysis_error("C06.shortbody: `if self._should_write(protocol)` / writer.set_eof() not found in ClientRequestBase._send")
    else:
        unchecked = g_.find_path(None, lambda n: n in seof, lambda n: n in clt or n in fcl, EXPLICIT, start_edges=[(t, "F") for t in swt])
        unclosed = g_.find_path(None, lambda n: n in seof, lambda n: n in fcl, EXPLICIT, start_edges=[(t, "T") for t in clt]) if clt else None
        if unchecked is None and unclosed is None:
            chk.ok("C06.shortbody", seof[0].ast, "_send(): a request that ends without a body task closes the connection when its head declared a Content-Length")
        else:
            chk.violation("C06.shortbody", sd_, "writer.set_eof()", "if self._get_content_length(): protocol.force_close()",
                          "a request with an explicit Content-Length header and no body is finished at once and its connection pooled: the server waits for the declared bytes and takes the next request on the connection for them",
                          path=g_.fmt_path(unchecked or unclosed))
