"""C05 Server connection: each request answered once, in order, or connection closed (DESIGN 5/C05)."""
from __future__ import annotations

import ast

from sa import match as M, norm, pc as PC, prog, rulekit as K
from sa.cfg import CANCEL, EXPLICIT, cfg_of
from sa.consteval import Folder, NotConst
from sa.effects import Effects
from sa.loader import AnalysisError
from rules import C01

MOD = "aiohttp/http_parser.py"
PROTO = "aiohttp/web_protocol.py"
RH = "RequestHandler"


def run(chk):
    repo = chk.repo
    folder = Folder(repo)
    errs = C01.http_error_classes(repo)
    chk.explanation = (
        "Decided on web_protocol.py / http_parser.py: no exception can leave data_received / connection callbacks / the unprotected part of "
        "start() (escape analysis with the request parser as declared receiver, request target validated inside the parser); one message is "
        "taken per loop iteration and its handler task is awaited before the next; every handler outcome reaches exactly one "
        "finish_response or re-raises, and no second response is built once bytes were written; the pipeline cap is tested before the next "
        "request line is parsed and the in-flight counter is paired with the queue; producers wake the waiting loop; an unread request body "
        "ends in EOF or closes the connection before the next request is parsed; parse errors map to 400 + close."
    )
    chk.not_decided = "byte-level non-interleaving of responses, liveness of the loop under pause/resume timing, behaviour of application-supplied handlers/request factories."
    chk.explanation += " Also decided: a buffer re-fed to the parser is reassigned on every path afterwards; the end-of-life flags have closed writer sets; a declined upgrade is revoked completely (also while still deferred); no body data on a bodiless response. After the defect hunt: an HTTPException raised after a response was started does not build a second response."
    chk.explanation += " Round 4 / second hunt: a stay-paused exit of the queue resume depends on the message queue; the error response is written on a fresh writer; one message head per writer; an already sent response object is answered 500; a body-less response may be compressed; echoed header text is escaped."
    chk.assumptions.append("request_factory is Server._make_request -> BaseRequest/Request (application factories out of scope)")
    rh = repo.cls(PROTO, RH)
    start = repo.func(PROTO, f"{RH}.start")
    dr = repo.func(PROTO, f"{RH}.data_received")
    hreq = repo.func(PROTO, f"{RH}._handle_request")
    fin = repo.func(PROTO, f"{RH}.finish_response")
    herr = repo.func(PROTO, f"{RH}.handle_error")
    rq = repo.cls(MOD, "HttpRequestParser")

    # receiver of self._parser: verified from the constructor call
    ctor = K.exprs(repo.func(PROTO, f"{RH}.__init__"), "HttpRequestParser($A, ...)")
    sup = K.exprs(repo.func(PROTO, f"{RH}.__init__"), "super().__init__($L, $P)")
    if not ctor or not sup or norm.text(sup[0][1]["P"], sup[0][0]) != norm.raw(ctor[0][0]) and norm.raw(sup[0][1]["P"]) != "parser":
        raise AnalysisError("C05: cannot verify that RequestHandler's parser is HttpRequestParser")
    hints = {(RH, "_parser"): rq, ("BaseProtocol", "_parser"): rq}
    mk = repo.func_opt("aiohttp/web_server.py", "Server._make_request")
    if mk is not None:
        hints[(RH, "_request_factory")] = mk
    eff = Effects(repo, int_gate=lambda c: C01.int_cannot_raise(c, folder), receiver_hints=hints)

    # ---- C05.escape ------------------------------------------------------------------------------------
    for q, allowed in ((f"{RH}.data_received", set()), (f"{RH}._process_keepalive", set()), (f"{RH}.connection_lost", set()),
                       (f"{RH}.connection_made", set()), (f"{RH}.eof_received", set()), (f"{RH}._resume_msg_queue_reading", set()),
                       (f"{RH}._pause_msg_queue_reading", set())):
        f = repo.func(PROTO, q)
        es = [e for e in eff.escapes(f, rh) if e.cls not in allowed]
        if es:
            for e in es[:6]:
                chk.violation("C05.escape", e.site, K.short(K.stmt_of(e.site) or e.site), f"{e.cls} escapes {q}",
                              f"{e.cls} ({e.why}) can leave {q}() into the event loop: the connection gets no answer", call_chain=" > ".join(e.chain))
        else:
            chk.ok("C05.escape", f, f"{q}(): no exception class can escape ({eff.stats['functions']} functions summarised so far)")
    # unprotected part of start(): between popleft() and the try that ends in force_close()
    pops = K.stmts(start, "$A, $B = self._messages.popleft()")
    if len(pops) != 1:
        chk.violation("C05.seq", start, "message, payload = self._messages.popleft()", f"{len(pops)} sites", "start() must take exactly one queued message per iteration")
        return
    pop = pops[0][0]
    blk = PC._block_of(pop)
    tail = blk[blk.index(pop) + 1:]
    prot = next((s for s in tail if isinstance(s, ast.Try) and any(M.contains(h, "self.force_close()") for h in s.handlers)), None)
    if prot is None:
        chk.violation("C05.escape.start", pop, K.short(pop), "try: ... except Exception: self.force_close()", "the request loop has no protecting handler that closes the connection on unexpected errors")
    else:
        region = tail[: tail.index(prot)]
        es = [e for e in eff.region_escapes(start, region, rh) if e.cls not in ("asyncio.CancelledError", "CancelledError")]
        if es:
            for e in es[:6]:
                chk.violation("C05.escape.start", e.site, K.short(K.stmt_of(e.site) or e.site), f"{e.cls} escapes the unprotected part of start()",
                              f"{e.cls} ({e.why}) kills the connection's request loop outside its protecting handler: the connection stays open, unanswered, with no handler running",
                              call_chain=" > ".join(e.chain))
        else:
            chk.ok("C05.escape.start", pop, f"start(): the {len(region)} statements between popleft() and the protecting try cannot raise (request target validated by the parser)")
        kinds = {t for h in prot.handlers for t in PC.handler_types(h)}
        if {"Exception", "BaseException"} <= kinds or "BaseException" in kinds:
            chk.ok("C05.escape.start", prot, "the protecting try catches Exception and BaseException and force-closes the connection")
        else:
            chk.violation("C05.escape.start", prot, "try/except around the handler task", "except Exception + except BaseException", "an unexpected error in the request loop does not close the connection")
    # the invariant behind it: the request target is validated where it is built
    url_validated(chk, repo, errs, "C05.escape.url")

    # ---- C05.seq -------------------------------------------------------------------------------------------
    loop = next((w for w in prog.enclosing(pop, (ast.While, ast.For))), None)
    inner = [w for w in prog.enclosing(pop, (ast.While, ast.For))]
    if loop is None or len(inner) != 1:
        chk.violation("C05.seq", pop, K.short(pop), "directly inside the request loop", "popleft() is not executed exactly once per iteration of the request loop")
    else:
        chk.ok("C05.seq", pop, "one message is taken from the queue per iteration of the request loop")
    g = cfg_of(start.node)
    tasks = [n for n in g.nodes if n.kind == "stmt" and isinstance(n.ast, ast.Assign) and (M.contains(n.ast.value, "asyncio.Task($C, ...)") or M.contains(n.ast.value, "$L.create_task($C)"))]
    if not tasks:
        chk.violation("C05.seq", start, "task = asyncio.Task(self._handle_request(...))", "handler task", "no handler task is created in start()")
    for t in tasks:
        name = t.ast.targets[0].id if isinstance(t.ast.targets[0], ast.Name) else None
        head = [n for n in g.nodes if n.kind == "test" and loop is not None and n.ast is loop.test and n.in_finally_copy is None]
        K.must_pass(chk, "C05.seq", start, [t], lambda n: K.node_has(n, f"await {name}") or K.node_has(n, "self.force_close()"), "the handler task is awaited before the next message is taken (no two handlers run on one connection)",
                    targets=lambda n: n in head, construct=K.short(t.ast), missing=f"await {name}")
    coro = K.exprs(start, "self._handle_request($R, $S, $H)")
    if coro:
        chk.ok("C05.seq", coro[0][0], "the task runs self._handle_request(request, ...)")
    else:
        chk.violation("C05.seq", start, "self._handle_request(request, start, handler)", "coroutine", "the handler task does not run _handle_request")
    mc = K.exprs(start, "self._parser.message_consumed()")
    if mc and set(str(l) for l in PC.units(PC.pc(mc[0][0], stop=loop))) <= {"!(self._parser is None)", "!(self._force_close)"}:
        chk.ok("C05.cap", mc[0][0], "each popleft() frees one parser slot (message_consumed) when the parser is still attached")
    else:
        chk.violation("C05.cap", start, "self._parser.message_consumed()", "after popleft()", "taking a message does not free a parser slot: the pipeline stalls at the cap")

    # ---- C05.once ----------------------------------------------------------------------------------------------
    gh = cfg_of(hreq.node)
    fins = [n for n in gh.nodes if K.node_has(n, "self.finish_response($R, $S, $T)")]
    if len(fins) < 4:
        chk.violation("C05.once", hreq, "await self.finish_response(...)", f"{len(fins)} sites", "not every handler outcome is answered")
    path = gh.find_path([gh.entry], lambda n: n is gh.exit, lambda n: n in fins, EXPLICIT)
    if path is None:
        chk.ok("C05.once", hreq, f"_handle_request(): every path to a normal return passes one of the {len(fins)} finish_response calls")
    else:
        chk.violation("C05.once", hreq, "_handle_request", "finish_response on every returning path", "a handler outcome returns without a response having been finished", path=gh.fmt_path(path))
    # A second finish_response after one that *returned* is a second response.  After one that *raised* the only way on is handle_error(),
    # which refuses (ConnectionError) once a byte of the first went out (checked below).
    herr_nodes = [n for n in gh.nodes if K.node_has(n, "self.handle_error(...)")]
    twice = None
    for f1 in fins:
        p2 = gh.find_path(None, lambda n: n in fins, lambda n: False, EXPLICIT, start_edges=[(f1, "n")])
        if p2 is None:
            p2 = gh.find_path(None, lambda n: n in fins, lambda n: n in herr_nodes, EXPLICIT, start_edges=[(f1, "x-await"), (f1, "x-call")])
        if p2 is not None:
            twice = p2
    if twice is None:
        chk.ok("C05.once", hreq, "_handle_request(): no path passes two finish_response calls, except through handle_error() after the first one raised (at most one response per request)")
    else:
        chk.violation("C05.once", hreq, "_handle_request", "at most one finish_response per path", "two responses can be finished for one request", path=gh.fmt_path(twice))
    # ---- C05.once.start: the handler's own response failing to start is answered like a failed handler ------------------------
    hcall = [n for n in gh.nodes if K.node_has(n, "await request_handler($R)")]
    own = [f for f in fins if hcall and gh.find_path(None, lambda n, f=f: n is f, lambda n: n.kind == "handler" or n in herr_nodes or (n in fins and n is not f), EXPLICIT, start_edges=[(hcall[0], "n")]) is not None]
    e500 = [n for n in gh.nodes if K.node_has(n, "self.handle_error($R, 500, $E)")]
    if not own:
        chk.error("C05.once.start", hreq, "no finish_response call takes the handler's own response")
    for f in own:
        if gh.find_path(None, lambda n: n in e500, lambda n: False, EXPLICIT, start_edges=[(f, "x-await"), (f, "x-call")]) is not None:
            chk.ok("C05.once.start", f, "an exception out of finishing the handler's response (prepare hooks, header serialisation) reaches handle_error(request, 500, exc)")
        else:
            chk.violation("C05.once.start", hreq, "resp, reset = await self.finish_response(request, resp, start_time)", "except Exception as exc: self.handle_error(request, 500, exc)",
                          "a response that fails to start escapes _handle_request(): the client gets no answer, only a dropped connection")
    # (fifth hunt, F277) the same for every other response that is not handle_error()'s own: the response built from a raised HTTPException
    # carries headers, reason and text of the application (and runs the prepare hooks) just like a returned one
    nother = 0
    for f in [f for f in fins if f not in own]:
        blk = PC._block_of(f.ast) or []
        i = blk.index(f.ast) if f.ast in blk else -1
        prev = blk[i - 1] if i > 0 else None
        if prev is not None and M.contains(prev, "self.handle_error(...)"):
            continue  # the error page of handle_error(): a failure here has no further fallback
        nother += 1
        if gh.find_path(None, lambda n: n in e500, lambda n: False, EXPLICIT, start_edges=[(f, "x-await"), (f, "x-call")]) is not None:
            chk.ok("C05.once.start", f, "an exception out of finishing the response of a raised HTTPException reaches handle_error(request, 500, exc)")
        else:
            chk.violation("C05.once.start", f.ast, K.short(f.ast), "except Exception as exc: resp = self.handle_error(request, 500, exc); finish_response(...)",
                          "the response built from a raised web.HTTPException fails to start (a header value with CR/LF from the request, an on_response_prepare hook that raises, an unknown charset) and the exception escapes _handle_request(): the client gets no answer at all, only a dropped connection - the same response returned instead of raised is answered 500")
    chk.expect_count("C05.once.start.other", nother, 1, "finish_response() calls that take a response built from an HTTPException")
    # outcome mapping
    want = [("asyncio.TimeoutError", "self.handle_error($R, 504)", "handler timeout -> 504"), ("Exception", "self.handle_error($R, 500, $E)", "handler error -> 500")]
    for h in [h for t in ast.walk(hreq.node) if isinstance(t, ast.Try) for h in t.handlers]:
        types = PC.handler_types(h)
        for tname, pat, what in want:
            if types == [tname]:
                if M.contains(h, pat):
                    chk.ok("C05.status", h, what)
                else:
                    chk.violation("C05.status", h, f"except {tname}", pat, f"{what} mapping changed")
        if types == ["HTTPException"]:
            if M.contains(h, "Response(status=$X.status, ...)") or M.contains(h, "Response(..., status=$X.status)"):
                chk.ok("C05.status", h, "HTTPException -> response with the exception's status")
            else:
                chk.violation("C05.status", h, "except HTTPException", "Response(status=exc.status, ...)", "HTTPException is not answered with its own status")
    hs = [h for t in ast.walk(hreq.node) if isinstance(t, ast.Try) for h in t.handlers]
    order = [PC.handler_types(h)[0] for h in hs if len(PC.handler_types(h)) == 1]
    if "asyncio.CancelledError" in order and "Exception" in order and order.index("asyncio.CancelledError") < order.index("Exception"):
        ch = hs[[PC.handler_types(h)[0] for h in hs].index("asyncio.CancelledError")]
        if isinstance(ch.body[-1], ast.Raise):
            chk.ok("C05.status", ch, "cancellation is re-raised before the generic handlers (no response is built for a cancelled handler)")
        else:
            chk.violation("C05.status", ch, "except asyncio.CancelledError", "raise", "a cancelled handler is answered instead of cancelled")
    # handle_error refuses a second response
    resp = K.exprs(herr, "Response(..., status=status)") or K.exprs(herr, "Response(status=status, ...)")
    rz = K.find_rejection(chk, "C05.once.partial", herr, [("request.writer.output_size > 0", True, "bytes of a response already written")], {"ConnectionError"},
                          "no second response once bytes were sent", strict_extra=True, allowed_extra=[])
    if rz is not None and resp and rz.lineno < resp[0][0].lineno:
        chk.ok("C05.once.partial", resp[0][0], "the refusal precedes the construction of the error response")
    elif rz is not None:
        chk.violation("C05.once.partial", herr, "Response(status=status, ...)", "after the output_size test", "the error response is built before checking that nothing was sent")
    # ... and so does every other place that builds a response of its own after the handler ran: the `except HTTPException` branch
    for h in hs:
        if PC.handler_types(h) != ["HTTPException"]:
            continue
        built = [c for c in ast.walk(h) if isinstance(c, ast.Call) and isinstance(c.func, ast.Name) and c.func.id == "Response"]
        for c in built:
            cl = PC.pc(c, stop=h)
            if PC.has_lit(cl, [("request.writer.output_size > 0", False), ("request.writer.output_size <= 0", True), ("request.writer.output_size == 0", True), ("request.writer.output_size", False)], True) is not None:
                chk.ok("C05.once.partial", c, "HTTPException raised by the handler: a response is built only if nothing of another response was written yet")
            else:
                chk.violation("C05.once.partial", c, K.short(c, 60), "!(request.writer.output_size > 0)",
                              "a handler that already started a (streamed) response and then raises web.HTTPException gets a second status line and body written into the first response's body, with the first response's chunked framing still active, and the connection stays keep-alive: the client sees `HTTP/1.1 404 ...` where a chunk-size line is expected and the next request is answered on the corrupted stream")
    ef = K.exprs(herr, "resp.force_close()")
    if ef:
        chk.ok("C05.once.partial", ef[0][0], "error responses force-close the connection")
    else:
        chk.violation("C05.once.partial", herr, "resp.force_close()", "force close", "an error response leaves the connection open")

    # ---- C05.cap ---------------------------------------------------------------------------------------------------
    fd = repo.func(MOD, "HttpParser.feed_data")
    pmc = K.exprs(fd, "self.parse_message(self._lines)")
    if not pmc:
        raise AnalysisError("C05.cap: parse_message call not found")
    # the counter grows inside the parse loop, so only a test made in the same iteration says anything about it: path condition relative to
    # the loop; and the guard must be exactly `cap disabled or below the cap` - a further disjunct (e.g. `or a body is being read`) lets
    # messages through at the cap
    ploop = next(iter(K.loop_ancestors(pmc[0][0])), None)
    cl = PC.pc(pmc[0][0], stop=ploop) if ploop is not None else PC.pc(pmc[0][0])
    full = any({(l.text, l.pos) for l in c} == {("self._max_msg_queue_size", False), ("self._msg_in_flight < self._max_msg_queue_size", True)} for c in cl)
    if full:
        chk.ok("C05.cap", pmc[0][0], "a new message is parsed only when `not (max_msg_queue_size and msg_in_flight >= max_msg_queue_size)`")
    else:
        chk.violation("C05.cap", pmc[0][0], K.short(pmc[0][0]), "!(self._max_msg_queue_size and self._msg_in_flight >= self._max_msg_queue_size)",
                      "the pipeline cap is not tested before the next request is parsed: unbounded parsed-but-unhandled requests", path_condition=norm.fmt_cnf(cl)[:500])
    # the queue-full test precedes even looking for the line
    finds = K.exprs(fd, "data.find(SEP, start_pos)")
    floop = next(iter(K.loop_ancestors(finds[0][0])), None) if finds else None
    if finds and any({(l.text, l.pos) for l in c} == {("self._max_msg_queue_size", False), ("self._msg_in_flight < self._max_msg_queue_size", True)} for c in (PC.pc(finds[0][0], stop=floop) if floop is not None else PC.pc(finds[0][0]))):
        chk.ok("C05.cap", finds[0][0], "the cap is tested before the next request line is looked at")
    else:
        chk.violation("C05.cap", fd, "pos = data.find(SEP, start_pos)", "after the queue-full test", "input is scanned before the pipeline cap is tested")
    app = K.stmts(fd, "messages.append(($M, $P))")
    inc = K.stmts(fd, "self._msg_in_flight += 1")
    if app and inc and PC._block_of(app[0][0]) is PC._block_of(K.stmt_of(inc[0][0]).parent) or (app and inc and PC._block_of(app[0][0]) is PC._block_of(inc[0][0])):
        gu = [str(l) for l in PC.units(PC.pc(inc[0][0], stop=app[0][0].parent))]
        chk.ok("C05.cap", inc[0][0], "every emitted message increments the in-flight counter (when the cap is enabled)")
    else:
        chk.violation("C05.cap", fd, "messages.append((msg, payload))", "self._msg_in_flight += 1", "emitted messages are not counted against the cap")
    try:
        cap = folder.name(repo.module(PROTO), "MAX_MSG_QUEUE_SIZE")
    except NotConst:
        cap = None
    kw = {k.arg: norm.raw(k.value) for k in ctor[0][0].keywords}
    own = K.stmts(repo.func(PROTO, f"{RH}.__init__"), "self._max_msg_queue_size = MAX_MSG_QUEUE_SIZE")
    if kw.get("max_msg_queue_size") == "MAX_MSG_QUEUE_SIZE" and own and isinstance(cap, int) and cap > 0:
        chk.ok("C05.cap", ctor[0][0], f"parser and protocol share the cap MAX_MSG_QUEUE_SIZE = {cap} (> 0: enabled)")
    else:
        chk.violation("C05.cap", ctor[0][0], K.short(ctor[0][0], 60), "max_msg_queue_size=MAX_MSG_QUEUE_SIZE (>0)", "parser and protocol disagree on the pipeline cap, or it is disabled")
    # protocol side: pause when the queue is full, resume at low water
    ps = K.exprs(dr, "self._pause_msg_queue_reading()")
    ok = False
    for call, _b in ps:
        if PC.has_lit(PC.pc(call), "len(self._messages) < self._max_msg_queue_size", False) is not None:
            ok = True
            chk.ok("C05.cap", call, "data_received(): the transport is paused when len(_messages) >= cap")
    if not ok:
        chk.violation("C05.cap", dr, "self._pause_msg_queue_reading()", "(len(self._messages) >= self._max_msg_queue_size)", "the transport is not paused when the message queue is full")
    rs = K.exprs(start, "self._resume_msg_queue_reading()")
    if rs and PC.has_lit(PC.pc(rs[0][0]), "self._msg_queue_paused", True) is not None and PC.has_lit(PC.pc(rs[0][0]), "len(self._messages) > self._msg_queue_resume_size", False) is not None:
        chk.ok("C05.cap", rs[0][0], "start(): reading resumes when the queue drained to the low-water mark")
    else:
        chk.violation("C05.cap", start, "self._resume_msg_queue_reading()", "(self._msg_queue_paused) & (len(self._messages) <= self._msg_queue_resume_size)", "a paused pipeline is never resumed (or resumed unconditionally)")
    pz = repo.func(PROTO, f"{RH}._pause_msg_queue_reading")
    rz2 = repo.func(PROTO, f"{RH}._resume_msg_queue_reading")
    if K.stmts(pz, "self._msg_queue_paused = True") and K.exprs(pz, "self.transport.pause_reading()") and K.stmts(rz2, "self._msg_queue_paused = False") and K.exprs(rz2, "self.transport.resume_reading()"):
        chk.ok("C05.cap", pz, "pause sets the flag and pauses the transport; resume clears it and resumes the transport")
    else:
        chk.violation("C05.cap", pz, "_pause/_resume_msg_queue_reading", "flag + transport pairing", "queue pause/resume is not paired with the transport")

    # staying paused needs a reason that a later event clears: queued messages (taken by start(), which calls this function again) or a
    # buffered tail that the message queue drains; anything else (e.g. `the parser holds an incomplete head`) can only be cleared by reading
    clr = [s_ for s_, _b in K.stmts(rz2, "self._msg_queue_paused = False")]
    stays = [r for r in ast.walk(rz2.node) if isinstance(r, ast.Return) and clr and r.lineno < clr[0].lineno]
    for r in stays:
        cl = PC.pc(r, raw=True)
        def nonempty(l):
            if "self._messages" not in l.text and "self._message_tail" not in l.text:
                return False
            less = " < " in l.text or " <= " in l.text
            return (not l.pos) if less else l.pos
        drained = [l for c in cl if len(c) == 1 for l in c if nonempty(l)]
        if drained:
            chk.ok("C05.cap", r, f"the transport stays paused only while `{drained[0]}`: handling the queued requests re-evaluates the resume")
        else:
            chk.violation("C05.cap", r, "return", "len(self._messages) >= self._max_msg_queue_size",
                          "the transport stays paused under a condition that does not involve the message queue: nothing a handler does re-evaluates it, and input that only the socket can complete (an incomplete request head) is never read - the connection hangs",
                          path_condition=norm.fmt_cnf(cl))
    chk.expect_count("C05.cap.stays", len(stays), 2, "stay-paused exits of _resume_msg_queue_reading()")
    hunt2_rules(chk, repo)
    hunt4_rules(chk, repo)
    hunt5_rules(chk, repo)
    # ---- C05.wake ---------------------------------------------------------------------------------------------------
    sr = K.exprs(dr, "$W.set_result(None)")
    if not sr:
        chk.violation("C05.wake", dr, "waiter.set_result(None)", "wake-up", "data_received() never wakes the request loop")
    for call, b in sr:
        units = PC.units(PC.pc(call))
        w = norm.raw(b["W"])
        allowed_lits = {"!(self._waiter is None)", "!(self._waiter.done())", "(messages)", "(self._payload_parser is None)", "!(self._upgraded)", "!(self._force_close)",
                        "!(self._close)", "!(self._parser is None)",
                        "!(self._parse_failed)"}  # after a parse failure nothing further is parsed or queued: the wake-up for the queued 400 was given when it was queued
        extra = [l for l in units if str(l) not in allowed_lits]
        src_ok = norm.text(b["W"], call) == "self._waiter"
        if extra or not src_ok:
            chk.violation("C05.wake", call, K.short(call), "; ".join(map(str, extra)) or "waiter = self._waiter", "the wake-up of the request loop is conditional on more than `messages and waiter pending`")
        else:
            chk.ok("C05.wake", call, "queued messages wake the request loop iff a waiter is pending")
        gd = cfg_of(dr.node)
        apps = K.nodes_matching(dr, "self._messages.append($X)")
        test = [n for n in gd.nodes if n.kind == "test" and K.node_has(n, f"{w}.done()")]
        if apps and test:
            K.must_pass(chk, "C05.wake", dr, apps, lambda n: n in test, "after queueing a message the waiter test is always evaluated", construct="self._messages.append((msg, payload))", missing="wake-up test")
    # start(): waiter cleared in finally
    wf = [s for s, _b in K.stmts(start, "self._waiter = None") if K.in_finally(s) is not None]
    if wf:
        chk.ok("C05.wake", wf[0], "start(): the waiter is cleared in a finally")
    else:
        chk.violation("C05.wake", start, "finally: self._waiter = None", "finally", "a cancelled wait leaves a stale waiter behind")

    # ---- C05.keepalive --------------------------------------------------------------------------------------------------
    pk = repo.func(PROTO, f"{RH}._process_keepalive")
    fc = K.exprs(pk, "self.force_close()")
    if fc:
        K.require_lits(chk, "C05.keepalive", fc[0][0], [("self._waiter", True, "idle: waiting for the next request"), ("self._waiter.done()", False, "still waiting"),
                                                          ("now < $T", False, "keep-alive deadline reached")], "keep-alive expiry closes only an idle connection")
    else:
        chk.violation("C05.keepalive", pk, "self.force_close()", "idle close", "keep-alive expiry no longer closes idle connections")

    # ---- C05.unread ---------------------------------------------------------------------------------------------------------
    outer = [i for i in ast.walk(start.node) if isinstance(i, ast.If) and norm.raw(i.test) == "not payload.is_eof()"]
    if not outer:
        chk.violation("C05.unread", start, "if not payload.is_eof():", "unread body test", "start() does not test whether the request body was consumed before taking the next request")
    else:
        o = outer[0]
        closes = [c for c, _b in M.find(o, "self.close()")]
        good = None
        for c in closes:
            units = {str(l) for l in PC.units(PC.pc(c, stop=o))}
            if units <= {"!(payload.is_eof())", "!(self._force_close)"}:
                good = c
        if good is None:
            chk.violation("C05.unread", o, "if not payload.is_eof() and not self._force_close: self.close()", "close() on every path with an unread body",
                          "a request body that was not fully received can be left on a kept-alive connection: its bytes are parsed as the next request or stall the connection",
                          closes=[norm.fmt_cnf(PC.pc(c, stop=o)) for c in closes])
        else:
            # the outermost `if` (below the unread-body test) that guards the close: merged or nested tests are the same thing
            ifst = None
            x = K.stmt_of(good).parent
            while x is not None and x is not o:
                if isinstance(x, ast.If):
                    ifst = x
                x = x.parent
            tests = [n for n in g.nodes if n.kind == "test" and n.ast is ifst.test]
            ot = [n for n in g.nodes if n.kind == "test" and n.ast is o.test]
            head = [n for n in g.nodes if n.kind == "test" and n.ast is loop.test]
            K.must_pass(chk, "C05.unread", start, None, lambda n: n in tests or K.node_has(n, "self.force_close()"), "an unread request body always reaches the `still not EOF -> close()` test before the next iteration",
                        start_edges=[(t, "T") for t in ot], targets=lambda n: n in head or n is g.exit, construct="if not payload.is_eof():", missing="close() test")
        # the linger loop is bounded by a timeout and a deadline
        lw = [w for w in ast.walk(o) if isinstance(w, ast.While)]
        for w in lw:
            aws = prog.awaits_in(w)
            def tctx(a):
                return [wt for wt in prog.enclosing(a, (ast.AsyncWith,)) if any(prog.is_timeout_ctx(it.context_expr) for it in wt.items)]
            outside = all(any(not any(x is w for x in prog.enclosing(wt, (ast.While,))) for wt in tctx(a)) for a in aws)
            inside = all(tctx(a) for a in aws) and any(isinstance(c, ast.Compare) and isinstance(c.ops[0], (ast.Lt, ast.LtE)) for c in ast.walk(w.test))
            if aws and (outside or inside):
                chk.ok("C05.unread", w, "the lingering read loop is bounded: " + ("one timeout encloses the loop" if outside else "per-read timeout plus a deadline in the loop test"))
            else:
                chk.violation("C05.unread", w, K.short(w, 60), "deadline + timeout", "lingering read of an unread body is unbounded")

    # ---- C05.flags (T4): who may tell the request loop to stop ---------------------------------------------------------------
    # `_close` / `_force_close` / `_keepalive` decide whether queued requests are still answered. The parser-error path must go through
    # the queue (an _ErrInfo entry answered in order by start()); a flag set from data_received() drops the queued entries instead.
    for attr, allowed in (("_close", {f"{RH}.__init__": "initial state", f"{RH}.close": "graceful close requested by the server (pre_shutdown) or by EOF handling"}),
                          ("_force_close", {f"{RH}.__init__": "initial state", f"{RH}.force_close": "immediate close", f"{RH}.shutdown": "server shutdown stops keep-alive first"}),
                          ("_keepalive", {f"{RH}.__init__": "initial state", f"{RH}.keep_alive": "public switch", f"{RH}.start": "taken from the response that was just sent"})):
        K.owners(chk, "C05.flags", repo, [PROTO], attr, allowed, f"the end-of-life flag {attr} has a closed set of writers", classes=(RH,))
    # ---- C05.consume: bytes handed to a parser are removed from the buffer they came from ----
    WPROTO_BUFFERS = (("RequestHandler.finish_response", "self._parser.feed_data(self._message_tail)"), ("RequestHandler.set_parser", "self._payload_parser.feed_data(self._message_tail)"))
    for q, pat in WPROTO_BUFFERS:
        f = repo.func(PROTO, q)
        feeds = K.nodes_matching(f, pat)
        if not feeds:
            chk.analysis_error(f"C05.consume: `{pat}` not found in {q}")
            continue
        def clears(n):
            return n.kind == "stmt" and isinstance(n.ast, ast.Assign) and any(norm.raw(t) == "self._message_tail" for t in n.ast.targets)
        K.must_pass(chk, "C05.consume", f, feeds, K.via_with_calls(repo, clears), f"{q}: after the buffered bytes were fed to the parser the buffer is reassigned on every path (they are not fed twice)",
                    construct=pat, missing="self._message_tail = <new tail>")

    # ---- C05.decline: an upgrade the handler did not accept is revoked completely ---------------------------------------------------
    # The parser defers an upgrade until the request body has been read (_pending_upgrade). If the handler answers before that and the
    # deferred upgrade later takes effect, the parser stops, the protocol buffers everything in _message_tail and nobody is left to read it.
    hpf = repo.func(MOD, "HttpParser.feed_data")
    su = repo.func(MOD, "HttpParser.set_upgraded")
    deferred = set()
    for a in ast.walk(hpf.node):
        if isinstance(a, ast.Assign) and norm.raw(a.targets[0]) == "self._upgraded" and isinstance(a.value, ast.Constant) and a.value.value is True:
            for l in PC.units(PC.pc(a, raw=True)):
                if l.pos and l.text.startswith("self._") and l.text.replace("self.", "").isidentifier():
                    deferred.add(l.text)
    if not deferred:
        chk.analysis_error("C05.decline: no deferred-upgrade state found in HttpParser.feed_data (anchor vanished)")
    for attr in sorted(deferred):
        resets = [x for x in ast.walk(su.node) if isinstance(x, ast.Assign) and norm.raw(x.targets[0]) == attr and (norm.raw(x.value) in ("False", "val") or (isinstance(x.value, ast.Constant) and not x.value.value))]
        if resets:
            chk.ok("C05.decline", resets[0], f"HttpParser.set_upgraded(False) also clears `{attr}`: a declined upgrade cannot take effect after the body was read")
        else:
            chk.violation("C05.decline", su, "self._upgraded = val", f"{attr} = False",
                          f"set_upgraded(False) leaves `{attr}` set: the parser switches to upgraded mode when the request body completes, after the handler has already answered")
    fr_ = repo.func(PROTO, "RequestHandler.finish_response")
    revokes = [c for c, _b in K.exprs(fr_, "self._parser.set_upgraded(False)")]
    free = [c for c in revokes if PC.has_lit(PC.pc(c), "self._upgraded", True) is None]
    if free:
        chk.ok("C05.decline", free[0], "finish_response(): the parser's upgrade is revoked whenever the handler finished without accepting it, also while it is still pending")
    else:
        chk.violation("C05.decline", revokes[0] if revokes else fr_, "self._parser.set_upgraded(False)", "not conditional on self._upgraded",
                      "the upgrade is revoked only if it has already taken effect: `POST` + `Upgrade` + `Content-Length` answered before its body arrives leaves the deferred upgrade armed; once the body is in, every later request sits unanswered in _message_tail with no handler running")
    # ---- C05.bodiless: no stray body bytes between two responses (shared with C04) ----
    from rules import C04

    C04.bodiless(chk, repo, rule="C05.bodiless")
    # ---- C05.errtext: the 400 can always be built (shared with C10) ----
    from rules import C10 as _C10

    _C10.message_text_rule(chk, repo, rule="C05.errtext")
    # ---- C05.err400 ------------------------------------------------------------------------------------------------------------
    C01.err400(chk, repo, folder, errs, rule="C05.err400")
    chk.extra["effects_stats"] = dict(eff.stats)


def url_validated(chk, repo, errs, rule):
    """Every construction of the request target in HttpRequestParser.parse_message sits in a try whose
    ValueError handler raises an HTTP error, and the lazily validated host/port split is forced there."""
    pm = repo.func(MOD, "HttpRequestParser.parse_message")
    builds = K.exprs(pm, "URL($X, ...)") + K.exprs(pm, "URL.build(...)")
    if len(builds) < 3:
        chk.analysis_error(f"{rule}: expected >= 3 URL constructions in parse_message, found {len(builds)}")
    tries = set()
    for call, _b in builds:
        ok = None
        for t, h in K.enclosing_try_handlers(call):
            if "ValueError" in PC.handler_types(h) or "Exception" in PC.handler_types(h):
                rs = [cls for n, cls in K.raises_in(h) if cls and cls.split(".")[-1] in errs]
                if rs:
                    ok = t
                break
        if ok is None:
            chk.violation(rule, call, K.short(call), "try: ... except ValueError: raise InvalidURLError",
                          "a malformed request target raises ValueError out of the parser (not a 400) instead of an HTTP protocol error")
        else:
            tries.add(ok)
            chk.ok(rule, call, "request target built inside `except ValueError -> HTTP error`")
    for t in tries:
        if not any(isinstance(a, ast.Assign) and norm.raw(a.targets[0]) == "url" for s_ in t.body for a in ast.walk(s_)):
            continue  # a validation-only construction (Host header): nothing is kept, nothing is read lazily later
        forced_attrs = {n.attr for s in t.body for n in ast.walk(s) if isinstance(n, ast.Attribute) and n.attr in ("host", "port", "raw_host", "authority", "explicit_port") and norm.raw(n.value) == "url"}
        # what the request object reads from the target outside any protection must have been forced here: `.host` also IDNA-decodes the
        # name (UnicodeError), which the cheaper `.raw_host` / `.port` do not
        IMPLIES = {"host": {"host", "raw_host"}, "raw_host": {"raw_host"}, "port": {"port", "explicit_port"}, "explicit_port": {"explicit_port"}, "authority": {"authority", "host", "raw_host", "port", "explicit_port"}}
        covered = set().union(*[IMPLIES.get(a, {a}) for a in forced_attrs]) if forced_attrs else set()
        try:
            bri = repo.func("aiohttp/web_request.py", "BaseRequest.__init__")
            used = {n.attr for n in ast.walk(bri.node) if isinstance(n, ast.Attribute) and n.attr in IMPLIES and norm.raw(n.value) in ("url", "message.url")}
        except AnalysisError:
            used = set()
        forced = bool(forced_attrs) and used <= covered
        if forced_attrs and not forced:
            chk.violation(rule, t, "try: url = URL(...)", f"url.{sorted(used - covered)[0]} inside the try",
                          f"BaseRequest.__init__ reads `url.{sorted(used - covered)[0]}` outside any protection, but the parser only forces `{', '.join('url.' + a for a in sorted(forced_attrs))}`: a target whose host splits fine but cannot be IDNA-decoded (`http://xn--a/`, a non-ASCII byte in the host) is accepted by the parser and raises UnicodeError in the unprotected part of the request loop - the client gets no response at all instead of a 400")
            continue
        if forced:
            chk.ok(rule, t, "the lazily validated host/port split is forced inside the same try (BaseRequest.__init__ and handlers can read it safely)")
        else:
            chk.violation(rule, t, "try: url = URL(...)", "url.host inside the try", "yarl validates host/port lazily: an out-of-range or non-numeric port raises later, in the unprotected part of the request loop")


def hunt5_rules(chk, repo):
    """Rules written after the fifth defect hunt (F278)."""
    # (round 7, seed C05-7) a request body stream that ends while it holds reading paused hands the pause back: otherwise the next request
    # on the connection is never read - an open connection with an unanswered request and no handler running (rule shared with C08)
    from rules import C08
    C08.eof_resume_rule(chk, repo, "C05.resume.eof")
    import itertools
    from sa.dtable import Evaluator
    # ---- C05.lost.task: a start() task that connection_lost() lets go of has been cancelled ----------------------------------------------------------
    # connection_lost() forgets the task (`self._task_handler = None`) unless a handler still runs; shutdown() can then no longer cancel it.  A
    # task that is forgotten while it only waits - for the next request, or in the lingering read of a body that can no longer arrive - has to
    # be cancelled by the same call, or it stays parked (for lingering_time, or for ever) with the connection listed as alive.
    cl = repo.func(PROTO, "RequestHandler.connection_lost")
    forget = [a for a in ast.walk(cl.node) if isinstance(a, ast.Assign) and norm.raw(a.targets[0]) == "self._task_handler" and isinstance(a.value, ast.Constant) and a.value.value is None]
    cancels = [c for c in prog.calls_in(cl.node) if norm.raw(c.func) == "self._task_handler.cancel"]
    if not forget:
        chk.analysis_error("C05.lost.task: `self._task_handler = None` not found in RequestHandler.connection_lost")
        return
    def cond(node):
        tests = [i.test for i in prog.enclosing(node, (ast.If,)) if any(x is node for b_ in i.body for x in ast.walk(b_))]
        return tests
    bad = None
    for hc, rip in itertools.product((False, True), (False, True)):
        env = {"handler_cancellation": hc, "self._request_in_progress": rip, "self._task_handler": object(), "self._manager.handler_cancellation": hc}
        try:
            f_on = all(bool(Evaluator(dict(env)).ev(t)) for t in cond(forget[0]))
            c_on = any(all(bool(Evaluator(dict(env)).ev(t)) for t in cond(K.stmt_of(c))) for c in cancels)
        except Exception as e:
            chk.analysis_error(f"C05.lost.task: cannot evaluate the conditions of connection_lost(): {e}")
            return
        if f_on and not c_on:
            bad = (hc, rip)
    if bad is None:
        chk.ok("C05.lost.task", forget[0], "connection_lost(): whenever the start() task is forgotten (no handler running, or handler_cancellation) it is cancelled in the same call - all 4 rows")
    else:
        chk.violation("C05.lost.task", forget[0], K.short(forget[0]), "self._task_handler.cancel() under the condition that forgets the task",
                      f"connection_lost() lets go of the start() task without cancelling it (handler_cancellation={bad[0]}, request in progress={bad[1]}): a task that idles, or reads the rest of a body in the lingering loop after the client went away, stays parked for lingering_time with the connection still listed, and shutdown() cannot cancel what it no longer knows")


def hunt4_rules(chk, repo):
    """Rules written after the fourth defect hunt (F235-F238)."""
    fr = repo.func(PROTO, f"{RH}.finish_response")
    # ---- C05.once.parsercalls: nothing the request parser raises leaves finish_response() before the response is written ------------------------
    # feed_eof() / feed_data() of the request parser raise HttpProcessingError (outstanding Content-Length body, bad chunk): finish_response()
    # is called from every except-branch of _handle_request(), an exception out of it there is not answered by anybody.
    n = 0
    for c in [c for c in prog.calls_in(fr.node) if norm.raw(c.func) in ("self._parser.feed_eof", "self._parser.feed_data")]:
        n += 1
        caught = set()
        for w in prog.enclosing(c, (ast.With,)):
            for it in w.items:
                ce = it.context_expr
                if isinstance(ce, ast.Call) and norm.raw(ce.func) in ("suppress", "contextlib.suppress"):
                    caught |= {norm.raw(a) for a in ce.args}
        for t_, h in K.enclosing_try_handlers(c):
            if prog.in_body_of(c, t_, "body"):
                caught |= set(PC.handler_types(h)) if h.type is not None else {"BaseException"}
        if caught & {"HttpProcessingError", "Exception", "BaseException"}:
            chk.ok("C05.once.parsercalls", c, f"finish_response(): `{K.short(c, 40)}` cannot raise HttpProcessingError out of the function")
        else:
            chk.violation("C05.once.parsercalls", c, K.short(c, 50), "with suppress(HttpProcessingError):",
                          "finish_response() ends the tunnel of a refused CONNECT with feed_eof(); when the CONNECT declared a body that has not fully arrived the body parser raises ContentLengthError / TransferEncodingError there - out of the except-branch that was answering the 404: zero bytes are sent and the connection is dropped, while the same request with the body in the same read gets its 404")
    chk.expect_count("C05.once.parsercalls", n, 2, "request parser calls in finish_response()")
    # ---- C05.upgrade.mode: installing a payload parser puts the protocol in upgraded mode --------------------------------------------------------------
    sp = repo.func(PROTO, f"{RH}.set_parser")
    inst = [a for a in ast.walk(sp.node) if isinstance(a, ast.Assign) and norm.raw(a.targets[0]) == "self._payload_parser"]
    up = [a for a in ast.walk(sp.node) if isinstance(a, ast.Assign) and norm.raw(a) == "self._upgraded = True"]
    if inst and up and not list(prog.enclosing(up[0], (ast.If, ast.While, ast.For, ast.Try))):
        chk.ok("C05.upgrade.mode", up[0], "set_parser(): the connection is in upgraded mode from the moment a WebSocket reader is installed (flow control goes to the reader, not to the HTTP parser)")
    else:
        chk.violation("C05.upgrade.mode", sp, "self._payload_parser = parser", "self._upgraded = True",
                      "the handshake accepts Upgrade values the request parser did not take for an upgrade (`websocket\\xa0`): the reader is installed while _upgraded stays False, the first flow-control pause hits `assert self._payload_parser is not None` in HttpParser.pause_reading, the transport is never paused and the handler loses messages")
    # ---- C05.drain.retrieved: the shared drain waiter failed by connection_lost() is nobody's unretrieved exception ---------------------------------
    BP = "aiohttp/base_protocol.py"
    dh = repo.func(BP, "BaseProtocol._drain_helper")
    cl = repo.func(BP, "BaseProtocol.connection_lost")
    shielded = any(M.contains(a, "asyncio.shield($W)") for a in prog.awaits_in(dh.node))
    fails = [c for c in prog.calls_in(cl.node) if (norm.raw(c.func) == "set_exception" and c.args and norm.raw(c.args[0]) == "waiter") or norm.raw(c.func) == "waiter.set_exception"]
    marks = [c for c in prog.calls_in(cl.node) if norm.raw(c.func) == "waiter.exception" and fails and c.lineno > fails[0].lineno]
    if not shielded or not fails:
        chk.ok("C05.drain.retrieved", cl, "the drain waiter is awaited directly by its senders (nothing can be left behind)") if fails else chk.analysis_error("C05.drain.retrieved: BaseProtocol.connection_lost does not fail the drain waiter")
    elif marks:
        chk.ok("C05.drain.retrieved", marks[0], "connection_lost() retrieves the exception it sets on the shared drain waiter (a cancelled sender may have left the waiter without an awaiter)")
    else:
        chk.violation("C05.drain.retrieved", fails[0], K.short(fails[0], 50), "waiter.exception()  (after setting it)",
                      "senders await the shared drain waiter through asyncio.shield(): one that timed out has left it pending with no awaiter; when the peer then resets, connection_lost() sets ConnectionError on it and the loop's exception handler reports `Future exception was never retrieved` for an ordinary client disconnect")
    # ---- C05.errinfo.text: the 400 for a parse error is built from whatever message the parser gave, also none ----------------------------------------
    stf = repo.func(PROTO, f"{RH}.start")
    mk = [c for c in prog.calls_in(stf.node) if norm.raw(c.func) == "HTTPBadRequest" and any(k.arg == "text" for k in c.keywords)]
    for c in mk:
        tv = next(k.value for k in c.keywords if k.arg == "text")
        in_try = any(prog.in_body_of(c, t_, "body") for t_ in prog.enclosing(c, (ast.Try,)))
        guarded = isinstance(tv, ast.BoolOp) and isinstance(tv.op, ast.Or) and any(isinstance(v, ast.Constant) and v.value is None for v in tv.values)
        if guarded or in_try:
            chk.ok("C05.errinfo.text", c, "start(): an empty parser message gives the default 400 text (no call form that warns between popleft() and the try)")
        else:
            chk.violation("C05.errinfo.text", c, K.short(c, 60), "text=message.message or None",
                          "a parse error with an empty message (empty chunk-size line, empty request-target) builds HTTPBadRequest(text='', content_type=...), aiohttp's own deprecated call form: under -W error the warning is raised between popleft() and the try of start() - the task dies, nothing is sent, the transport stays open")
    if not mk:
        chk.analysis_error("C05.errinfo.text: HTTPBadRequest(text=...) not found in RequestHandler.start")


def hunt2_rules(chk, repo):
    """Rules written after the second defect hunt (F131-F134)."""
    HW_ = "aiohttp/http_writer.py"
    UD_ = "aiohttp/web_urldispatcher.py"
    # ---- C05.once.writer: the error response does not inherit the framing a failed prepare() left on the request's writer ---------------------
    n = 0
    for q in (f"{RH}._handle_request", f"{RH}.handle_error"):
        f = repo.func(PROTO, q)
        builds = [c for c in prog.calls_in(f.node) if norm.raw(c.func) == "Response" and any(k.arg == "status" for k in c.keywords)]
        fdefs = norm.fn_defs(f.node).defs
        def is_new_writer(v):
            if isinstance(v, ast.Call) and norm.raw(v.func) == "StreamWriter":
                return True
            return isinstance(v, ast.Name) and any(dv is not None and isinstance(dv, ast.Call) and norm.raw(dv.func) == "StreamWriter" for _d, dv in fdefs.get(v.id, []))
        fresh = [a for a in ast.walk(f.node) if isinstance(a, ast.Assign) and norm.raw(a.targets[0]) == "request._payload_writer" and is_new_writer(a.value)]
        for b_ in builds:
            # only the error responses built after the `nothing sent yet` test matter
            if not any("output_size" in norm.raw(t.test) for t in ast.walk(f.node) if isinstance(t, ast.If) and t.lineno < b_.lineno):
                continue
            n += 1
            if any(a.lineno < b_.lineno for a in fresh):
                chk.ok("C05.once.writer", b_, f"{q.split('.')[-1]}(): the error response is written on a fresh StreamWriter")
            else:
                chk.violation("C05.once.writer", b_, K.short(b_, 60), "request._payload_writer = StreamWriter(self, self._loop) before the error response is built",
                              f"{q.split('.')[-1]}() writes the error response on the request's writer because nothing was sent yet - but StreamResponse._prepare_headers() has already enabled chunking / compression / a length limit on that writer when prepare() failed (header-injection guard, on_response_prepare raising): the wire shows `500 ... Content-Length: 55` followed by a chunk-framed (or deflated) body, and on keep-alive the surplus framing bytes mis-frame the next response")
    chk.expect_count("C05.once.writer", n, 2, "error responses built after the output_size test")
    # ---- C05.once.head: one message head per writer ----------------------------------------------------------------------------------------------
    wh = repo.func(HW_, "StreamWriter.write_headers")
    rs = [r for r, _c in K.raises_in(wh) if PC.has_lit(PC.pc(r, raw=True), "self._headers_written", True) is not None]
    if rs:
        chk.ok("C05.once.head", rs[0], "StreamWriter.write_headers() refuses a second message head")
    else:
        chk.violation("C05.once.head", wh, "write_headers", "if self._headers_written: raise RuntimeError",
                      "nothing stops a second status line on a writer that already carries one: an error middleware that returns json_response(500) after the streaming handler had prepared and written its response puts a second head inside the unfinished chunked body of the first, and the connection stays alive")
    # ---- C05.once.sent: a response object that was already sent answers nothing ------------------------------------------------------------------
    fr = repo.func(PROTO, f"{RH}.finish_response")
    if any(isinstance(i, ast.If) and "_eof_sent" in norm.raw(i.test) for i in ast.walk(fr.node)):
        chk.ok("C05.once.sent", fr, "finish_response() does not take an already sent response for an answer")
    else:
        chk.violation("C05.once.sent", fr, "await prepare_meth(request); await resp.write_eof()", "if resp._eof_sent and request.writer.output_size == 0: answer 500",
                      "a handler that returns a cached, already sent Response: prepare() and write_eof() return early because _eof_sent is set, finish_response() reports success and the connection is kept alive - 0 bytes sent, request unanswered, no handler running until the keep-alive timeout")
    # ---- C05.errtext: request text reaches an HTTPException text only escaped -----------------------------------------------------------------------
    def tainted(fn, e, defs, at):
        """e mentions a header value: headers.get(...) / headers[...] directly, or a local whose reaching definition does"""
        if any(isinstance(x, (ast.Call, ast.Subscript)) and "headers" in norm.raw(x) for x in ast.walk(e)):
            return True
        anc = set()
        cur = at
        while cur is not None:
            anc.add(id(cur))
            cur = getattr(cur, "parent", None)
        for x in [x for x in ast.walk(e) if isinstance(x, ast.Name)]:
            # the last definition above the raise in an enclosing block is the one that reaches it
            cand = [(d, v) for d, v in defs.get(x.id, []) if v is not None and getattr(d, "lineno", 0) < at.lineno and id(getattr(d, "parent", None)) in anc]
            if cand:
                v = max(cand, key=lambda dv: dv[0].lineno)[1]
                if "headers" in norm.raw(v) and "backslashreplace" not in norm.raw(v):
                    return True
        return False

    n_echo = 0
    for fn, what in ((repo.func(UD_, "_default_expect_handler"), "the Expect header value is echoed verbatim into the 417 text"),
                     (repo.func("aiohttp/web_ws.py", "WebSocketResponse._handshake"), "an Upgrade / Connection / Sec-WebSocket-* header value is echoed verbatim into the 400 text")):
        defs = norm.fn_defs(fn.node).defs
        for r, cname in K.raises_in(fn):
            call = r.exc if isinstance(r.exc, ast.Call) else None
            if call is None or not any(k.arg == "text" for k in call.keywords):
                continue
            txt = next(k.value for k in call.keywords if k.arg == "text")
            bad = []
            for js in [j for j in ast.walk(txt) if isinstance(j, ast.JoinedStr)]:
                bad += [v for v in js.values if isinstance(v, ast.FormattedValue) and v.conversion not in (114, 97) and tainted(fn, v.value, defs, r)
                        and not (isinstance(v.value, ast.Call) and norm.raw(v.value.func) in ("repr", "ascii"))]
            for bo in [b for b in ast.walk(txt) if isinstance(b, ast.BinOp) and isinstance(b.op, ast.Mod) and isinstance(b.left, ast.Constant) and isinstance(b.left.value, str)]:
                if tainted(fn, bo.right, defs, r) and "%s" in bo.left.value:
                    bad.append(bo)
            n_echo += 1
            if not bad:
                chk.ok("C05.errtext", r, f"{cname} in {fn.qualname}: an echoed header value is escaped (!r / backslashreplace) before it becomes response text")
            else:
                chk.violation("C05.errtext", r, K.short(r, 70), "{value!r}  or  value.encode('ascii', 'backslashreplace').decode('ascii')",
                              what + ": header bytes that are not UTF-8 arrive as lone surrogates, Response(text=...) raises UnicodeEncodeError while the error is being built and the connection is dropped without any response")
    chk.expect_count("C05.errtext", n_echo, 5, "HTTPException(text=...) raise sites in the Expect handler and the WebSocket handshake")
    # any other HTTPException text (handlers, request.json()) that cannot be encoded is still answered: _handle_request renders it escaped
    hreq = repo.func(PROTO, f"{RH}._handle_request")
    hx = [h for t in ast.walk(hreq.node) if isinstance(t, ast.Try) for h in t.handlers if PC.handler_types(h) == ["HTTPException"]]
    built = [c for h in hx for c in ast.walk(h) if isinstance(c, ast.Call) and norm.raw(c.func) == "Response" and any(k.arg == "text" for k in c.keywords)]
    guarded = []
    for c in built:
        cur = c
        while getattr(cur, "parent", None) is not None and cur.parent not in hx:
            par = cur.parent
            if isinstance(par, ast.Try) and cur in par.body:
                for h in par.handlers:
                    if set(PC.handler_types(h)) & {"UnicodeEncodeError", "UnicodeError", "ValueError", "Exception"} and any(
                            isinstance(k, ast.Constant) and k.value in ("backslashreplace", "replace", "xmlcharrefreplace", "namereplace", "ignore") for k in ast.walk(h)) and any(
                            isinstance(k, ast.Call) and norm.raw(k.func) == "Response" for k in ast.walk(h)):
                        guarded.append(c)
            cur = par
    if built and guarded:
        chk.ok("C05.errtext", guarded[0], "_handle_request(): when the HTTPException text cannot be encoded (UnicodeEncodeError) the response is built again from an escaped rendering")
    else:
        chk.violation("C05.errtext", hreq, "resp = Response(status=exc.status, reason=exc.reason, text=exc.text, headers=exc.headers)", "except UnicodeEncodeError: text = text.encode('ascii', 'backslashreplace').decode('ascii')",
                      "an HTTPException whose text echoes an undecodable request value (lone surrogates) makes Response(text=...) raise inside the except clause: the error escapes _handle_request() and the connection is dropped without a response")
    # ---- C05.outcome.payload: a malformed request body found while the handler reads it is the client's error ---------------------------------
    e400 = [c for c, _b in K.exprs(hreq, "self.handle_error($R, 400, ...)")]
    ok400 = [c for c in e400 if PC.has_lit(PC.pc(c), "isinstance($E, RequestPayloadError)", True) is not None]
    if ok400:
        chk.ok("C05.outcome.payload", ok400[0], "_handle_request(): RequestPayloadError (bad chunk size, undecodable content coding seen by request.read()) -> handle_error(400)")
    else:
        chk.violation("C05.outcome.payload", hreq, "except Exception as exc: resp = self.handle_error(request, 500, exc)", "if isinstance(exc, RequestPayloadError) and isinstance(exc.__cause__, HttpProcessingError): self.handle_error(request, 400, ...)",
                      "the same malformed body is answered 400 when it arrives with the head and 500 Internal Server Error when it arrives after the handler started reading")
    # ---- C05.once.nobody: enable_compression() on a response without a body does not fail while the response is being sent ---------------------
    WRESP_ = "aiohttp/web_response.py"
    dc = repo.func(WRESP_, "Response._do_start_compression")
    asserts = [a for a in ast.walk(dc.node) if isinstance(a, ast.Assert) and "self._body" in norm.raw(a.test)]
    early = [r for r in ast.walk(dc.node) if isinstance(r, ast.Return) and any("self._body is None" in l.text and l.pos for c in PC.pc(r, raw=True) for l in c)]
    if early or not asserts:
        chk.ok("C05.once.nobody", dc, "a body-less Response with compression enabled is sent as it is")
    else:
        chk.violation("C05.once.nobody", asserts[0], K.short(asserts[0]), "if coding is ContentCoding.identity or self._body is None: return",
                      "web.Response() has body None by default; with enable_compression() (a compress-everything middleware) the assertion fails inside finish_response(), outside the clauses that turn handler errors into a 500: start() logs `Unhandled exception` and force-closes - the client gets ServerDisconnectedError instead of the 201/204")
    # ---- C05.decline.connect: a CONNECT that is not answered 2xx does not leave the parser in tunnel mode -------------------------------------
    fr_ = repo.func(PROTO, f"{RH}.finish_response")
    fcs_ = [c for c in prog.calls_in(fr_.node) if norm.raw(c.func) == "resp.force_close" and any("METH_CONNECT" in l.text or "'CONNECT'" in l.text for cl_ in PC.pc(c, raw=True) for l in cl_)]
    if fcs_:
        chk.ok("C05.decline.connect", fcs_[0], "finish_response(): a CONNECT request answered with a non-2xx status closes the connection (the parser switched to tunnel mode on reading the head)")
    else:
        chk.violation("C05.decline.connect", fr_, "request.method == hdrs.METH_CONNECT", "resp.force_close() when the status is not 2xx",
                      "the request parser enters tunnel mode as soon as it has read a CONNECT head, but only a 2xx answer switches to a tunnel (RFC 9110 9.3.6): after `404` with keep-alive every further request on the connection is swallowed as tunnel data and never answered - the client hangs until the lingering / keep-alive timeout")
