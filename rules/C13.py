"""C13 WebSocket sessions close cleanly in every interleaving (DESIGN 5/C13): one rule set for both session classes."""
from __future__ import annotations

import ast

from sa import match as M, norm, pc as PC, prog, rulekit as K
from sa.cfg import ALL, CANCEL, EXPLICIT, cfg_of
from sa.loader import AnalysisError

SPECS = [
    {"mod": "aiohttp/web_ws.py", "cls": "WebSocketResponse", "reader": "reader", "reader_alt": "self._reader",
     "tclose": ("self._close_transport()", "self._set_code_close_transport($C)"), "timeout_attr": "self._timeout", "side": "server"},
    {"mod": "aiohttp/client_ws.py", "cls": "ClientWebSocketResponse", "reader": "self._reader", "reader_alt": "self._reader",
     "tclose": ("self._response.close()",), "timeout_attr": "self._timeout.ws_close", "side": "client"},
]


def run(chk):
    repo = chk.repo
    chk.explanation = (
        "Decided on web_ws.py and client_ws.py with one rule set (sibling agreement): the close frame has one send site per class, behind a test of "
        "_closed with no suspension point between the test and the latch; heartbeat timers are cancelled by both latches; receive() resets _waiting "
        "and wakes a close() waiting for it in a finally; every explicit exit of close() after the latch closes the transport; the wait for the peer's "
        "CLOSE is under one timeout that encloses the read loop; error exits report 1006 and the clean exit the peer's code; ping/pong failure closes "
        "the transport with 1006 and wakes a blocked receive(); auto-close/auto-pong dispatch; concurrent receive() is refused before any await."
    )
    chk.not_decided = "that receive() eventually returns in every interleaving (liveness); bounded send-side back-pressure during close; timer arithmetic."
    chk.explanation += " After the defect hunt: sending the Close frame and draining are under the close timeout; the peer's CLOSE is recognised by `is not None`."
    chk.explanation += " Round 4 / second hunt: a 1006 end aborts the transport on both sides; a late EOF does not rewrite the reported code; the client's Close frame is sent under the close deadline; the locked send task starts eagerly (shared with C11)."
    for sp in SPECS:
        one(chk, repo, sp)
        abnormal(chk, repo, sp)
        hunt3(chk, repo, sp)
        hunt4(chk, repo, sp)
        hunt5(chk, repo, sp)
    # the client session hears about a lost connection through the reader the protocol holds: connection_lost() feeds it EOF, which is what
    # wakes a parked receive() with CLOSED / 1006 - so nothing but connection_lost() itself (after that) and set_parser() may drop the reader
    CPM = "aiohttp/client_proto.py"
    K.owners(chk, "C13.lost", repo, [CPM], "_payload_parser", {"ResponseHandler.__init__": "no reader yet", "ResponseHandler.set_parser": "installs the reader",
                                                                "ResponseHandler.connection_lost": "drops the reader after feeding it EOF"},
             "the installed WebSocket reader stays reachable until the connection is lost", classes=("ResponseHandler",))
    cl_ = repo.func(CPM, "ResponseHandler.connection_lost")
    fe = [c for c in prog.calls_in(cl_.node) if norm.raw(c.func) == "self._payload_parser.feed_eof"]
    drops = [a for a in ast.walk(cl_.node) if isinstance(a, ast.Assign) and norm.raw(a.targets[0]) == "self._payload_parser"]
    if fe and all(d.lineno > fe[0].lineno for d in drops):
        chk.ok("C13.lost", fe[0], "connection_lost() feeds EOF to the installed reader before it lets go of it")
    else:
        chk.violation("C13.lost", cl_, "self._payload_parser.feed_eof()", "before self._payload_parser = None", "a lost connection is not reported to the WebSocket reader: a parked receive() is never woken")
    # frames held back by flow control are replayed (shared with C12): the peer's Close frame may be among them
    from rules import C12

    C12.hold_rule(chk, repo, "C13.hold", "the peer's Close frame is among the frames held back by flow control and is never decoded: receive() blocks although the peer closed long ago, close() times out and reports 1006 for a clean handshake")
    # no data frame follows the close frame: decided on the writer (shared with C11)
    from rules import C11

    chk.include(C11.run, ("C11.closing",), ("C11.closing", "C13.noframeafterclose"))


def one(chk, repo, sp):
    mod, cn, side = sp["mod"], sp["cls"], sp["side"]
    cls = repo.cls(mod, cn)
    close = K.with_tail_delegate(cls, "close")  # close() may hand its handshake to a private coroutine of its own
    recv = repo.func(mod, f"{cn}.receive")
    g = cfg_of(close.node)
    tag = f"[{side}]"

    # helpers of the class that close the transport first thing (e.g. _abort(): abort the socket, then close the response)
    helpers = tuple(f"self.{name}()" for name, m in cls.methods.items() if name not in ("close", "receive")
                    and any(isinstance(st, ast.Expr) and any(M.match(M.compile_pat(p), st.value) is not None for p in sp["tclose"]) for st in m.node.body))

    def tclose(n):
        return any(K.node_has(n, p) for p in tuple(sp["tclose"]) + helpers)

    # ---- once -----------------------------------------------------------------------------------------
    sends = []
    inlined = {c.func.attr for c in ast.walk(cls.methods["close"].node) if isinstance(c, ast.Call) and isinstance(c.func, ast.Attribute) and norm.raw(c.func.value) == "self"} if close is not cls.methods["close"] else set()
    for name, m in cls.methods.items():
        if name == "close":
            m = close  # with its tail delegate inlined
        elif name in inlined and any(isinstance(c, ast.Call) and norm.raw(c.func) == "self._writer.close" for c in ast.walk(m.node)) and any(
                isinstance(c, ast.Call) and norm.raw(c.func) == "self._writer.close" for c in ast.walk(close.node)):
            continue  # the private coroutine close() delegates to: seen as part of close()
        for c, _b in K.exprs(m, "self._writer.close(...)"):
            sends.append((name, c))
    if [n for n, _c in sends] != ["close"]:
        chk.violation("C13.once", close, "self._writer.close(code, message)", f"send sites: {[n for n, _ in sends]}", f"{tag} the close frame must be sent from exactly one place (close())")
        return
    send = sends[0][1]
    latch = K.nodes_matching(close, "self._set_closed()")
    tests = [n for n in g.nodes if n.kind == "test" and norm.raw(n.ast) == "self._closed"]
    if not latch or not tests:
        chk.violation("C13.once", close, "if self._closed: return False; self._set_closed()", "test and latch", f"{tag} close() has no test-and-set of the closed flag")
        return
    # no suspension between the test (false edge) and the latch
    reg = g.reachable([], include_starts=False)
    seen = {}
    stack = [t for tn in tests for t, k in g.succs(tn, EXPLICIT) if k == "F"]
    offenders = []
    reached = False
    while stack:
        n = stack.pop()
        if n.id in seen:
            continue
        seen[n.id] = True
        if n in latch:
            reached = True
            continue
        if K.node_suspends(n, repo):
            offenders.append(n)
        for t, _k in g.succs(n, EXPLICIT):
            stack.append(t)
    # only nodes that can still reach the latch matter
    off2 = [o for o in offenders if g.find_path([o], lambda n: n in latch, lambda n: False, EXPLICIT) is not None]
    if not reached:
        chk.violation("C13.once", tests[0].ast, "if self._closed: return False", "latch reachable from the test", f"{tag} the closed latch does not follow its test")
    elif off2:
        for o in off2:
            chk.violation("C13.once", o.ast, K.short(o.ast), "no await between `if self._closed` and `self._set_closed()`",
                          f"{tag} close() can suspend between testing and setting the closed flag: two tasks calling close() (or receive() auto-closing) both pass the test and two CLOSE frames are sent")
    else:
        chk.ok("C13.once", tests[0].ast, f"{tag} close(): `_closed` is tested and latched without a suspension point in between (at most one close frame)")
    # the test's true branch returns without sending
    tpath = g.find_path(None, lambda n: K.node_has(n, "self._writer.close(...)"), lambda n: n in latch, EXPLICIT, start_edges=[(g.entry, None)])
    if tpath is None:
        chk.ok("C13.once", send, f"{tag} every path to the close-frame send passes the latch")
    else:
        chk.violation("C13.once", send, K.short(send), "self._set_closed() before", f"{tag} the close frame can be sent without the latch having been set", path=g.fmt_path(tpath))
    lt = [n for n in tests]
    if all(PC.has_lit(PC.pc(send), "self._closed", False) is not None for _ in [0]):
        chk.ok("C13.once", send, f"{tag} the send is under `not self._closed`")
    else:
        chk.violation("C13.once", send, K.short(send), "!(self._closed)", f"{tag} the close frame send is not guarded by the closed flag")
    # ---- heartbeat -----------------------------------------------------------------------------------------
    for q in ("_set_closed", "_set_closing"):
        f = cls.methods.get(q)
        if f is None:
            chk.violation("C13.heartbeat", close, q, "method", f"{tag} {q} vanished")
            continue
        if K.exprs(f, "self._cancel_heartbeat()"):
            chk.ok("C13.heartbeat", f, f"{tag} {q}() cancels the heartbeat timers")
        else:
            chk.violation("C13.heartbeat", f, q, "self._cancel_heartbeat()", f"{tag} {q}() leaves heartbeat/pong timers running after the session ended")
    # ---- waiting ---------------------------------------------------------------------------------------------
    reads = [a for a in prog.awaits_in(recv.node) if norm.raw(a.value) == "self._reader.read()"]
    if not reads:
        raise AnalysisError(f"C13.waiting: reader read not found in {cn}.receive")
    for a in reads:
        fin = None
        for t in prog.enclosing(a, (ast.Try,)):
            if prog.in_body_of(a, t, "body") and t.finalbody:
                fin = t
                break
        ok = fin is not None and any(norm.raw(s) == "self._waiting = False" for s in fin.finalbody) and any(M.contains(s, "set_result(self._close_wait, None)") for s in fin.finalbody)
        sets = False
        if fin is not None:
            blk = PC._block_of(fin) or []
            prev = blk[blk.index(fin) - 1] if fin in blk and blk.index(fin) > 0 else None
            # set inside the try, or directly before it (nothing that can raise or suspend in between)
            sets = any(norm.raw(s) == "self._waiting = True" for s in fin.body) or (prev is not None and norm.raw(prev) == "self._waiting = True")
        if ok and sets:
            chk.ok("C13.waiting", a, f"{tag} receive(): _waiting is set inside the try and reset + close() woken in its finally (also on timeout/cancel)")
        else:
            chk.violation("C13.waiting", a, K.short(a), "finally: self._waiting = False; set_result(self._close_wait, None)",
                          f"{tag} a receive() that times out or is cancelled leaves _waiting set / leaves close() waiting for it forever")
    for s, _b in K.stmts(recv, "self._waiting = True"):
        pass
    # ---- transport ------------------------------------------------------------------------------------------------
    K.must_pass(chk, "C13.transport", close, latch, tclose, f"{tag} after the latch every explicit return/raise of close() closes the transport", model=EXPLICIT,
                construct="self._set_closed()", missing=" / ".join(sp["tclose"]))
    # ... and so does a cancellation at any of its suspension points (the session is latched closed: nobody else will close the transport)
    K.must_pass(chk, "C13.transport", close, latch, tclose, f"{tag} after the latch a close() cancelled at any await closes the transport", model=CANCEL,
                construct="self._set_closed()", missing="except asyncio.CancelledError: <1006, close the transport>; raise")
    # ---- timeout ----------------------------------------------------------------------------------------------------
    creads = [a for a in prog.awaits_in(close.node) if norm.raw(a.value) in (f"{sp['reader']}.read()", "self._reader.read()")]
    if not creads:
        chk.violation("C13.timeout", close, "await reader.read()", "wait for the peer's CLOSE", f"{tag} close() does not wait for the peer's close frame")
    for a in creads:
        scopes = [w for w in prog.enclosing(a, (ast.AsyncWith,)) if K.timeout_budget(w, close.node) is not None]
        loops = K.loop_ancestors(a)
        if not scopes:
            chk.violation("C13.timeout", a, K.short(a), "async_timeout.timeout(<close timeout>)", f"{tag} waiting for the peer's CLOSE has no timeout: close() can block forever")
            continue
        sc = scopes[-1]
        encl = all(any(x is sc for x in prog.enclosing(l, (ast.AsyncWith,))) for l in loops)
        targ = K.timeout_budget(sc, close.node)
        if encl and targ == sp["timeout_attr"]:
            chk.ok("C13.timeout", a, f"{tag} close(): one `async_timeout.timeout({targ})` encloses the whole wait-for-CLOSE loop")
        elif not encl:
            chk.violation("C13.timeout", a, K.short(a), "timeout scope enclosing the read loop",
                          f"{tag} the close timeout is re-armed for every frame read: a peer that keeps sending frames postpones close() without limit")
        else:
            chk.violation("C13.timeout", a, K.short(a), f"timeout({sp['timeout_attr']})", f"{tag} the wait for CLOSE uses `{targ}` instead of the configured close timeout")
    # every other await of close() after the latch is bounded too (sending the Close frame, draining): a peer that stopped reading must not
    # block close() - the close hand-shake wait (_close_wait) is released by the local finally of receive() and is exempt
    for a in prog.awaits_in(close.node):
        txt = norm.raw(a.value)
        if a in creads or "_close_wait" in txt:
            continue
        scoped = any(K.timeout_budget(w, close.node) is not None for w in prog.enclosing(a, (ast.AsyncWith,)))
        blocking = ("drain(" in txt) or ("self._writer.close(" in txt)  # send_frame() waits in the drain helper once the output limit is reached
        if not blocking:
            continue
        if scoped:
            chk.ok("C13.timeout", a, f"{tag} close(): `{K.short(a, 40)}` is bounded by the close timeout")
        else:
            chk.violation("C13.timeout", a, K.short(a, 50), f"async with async_timeout.timeout({sp['timeout_attr']})",
                          f"{tag} close() sends the Close frame / drains outside any timeout: when the peer has stopped reading (writes paused by back-pressure) close() blocks for ever, the transport is never closed, and shutdown code that closes the open websockets hangs on one such client")
    # the peer's CLOSE is recognised by `is not None`: a Close frame without a status code is recorded as code 0
    for n in ast.walk(close.node):
        if isinstance(n, (ast.If, ast.While)) and any(isinstance(x, ast.Attribute) and x.attr == "_close_code" for x in ast.walk(n.test)):
            truthy = any(isinstance(x, ast.Attribute) and x.attr == "_close_code" and not isinstance(x.parent, ast.Compare) for x in ast.walk(n.test))
            if truthy:
                chk.violation("C13.codes", n, norm.raw(n.test), "self._close_code is not None",
                              f"{tag} close() tests the truthiness of _close_code to decide whether the peer's CLOSE was already received: a Close frame without a status code (code 0) is not recognised - close() waits the full close timeout for a second CLOSE and reports 1006 for a clean hand-shake")
            else:
                chk.ok("C13.codes", n, f"{tag} close(): `{norm.raw(n.test)}` distinguishes `no CLOSE yet` from a CLOSE without status code")
    # ---- codes ----------------------------------------------------------------------------------------------------------
    nh = 0
    for t in [t for t in ast.walk(close.node) if isinstance(t, ast.Try)]:
        for h in t.handlers:
            types = PC.handler_types(h)
            if any(x in ("asyncio.CancelledError", "Exception", "asyncio.TimeoutError") for x in types):
                nh += 1
                txt = " ".join(norm.raw(s) for s in h.body)
                if "WSCloseCode.ABNORMAL_CLOSURE" in txt:
                    chk.ok("C13.codes", h, f"{tag} close(): `except {'/'.join(types)}` reports 1006")
                else:
                    chk.violation("C13.codes", h, f"except {'/'.join(types)}", "WSCloseCode.ABNORMAL_CLOSURE", f"{tag} an abnormal end of close() does not report close code 1006")
    chk.expect_count("C13.codes", nh, 2, f"error handlers in {cn}.close")
    # the statement that takes the peer's code is reached only for a CLOSE message and is followed by the return of the clean exit
    takes = [st for st in ast.walk(close.node) if isinstance(st, ast.stmt) and not isinstance(st, (ast.If, ast.While, ast.For, ast.Try, ast.With, ast.AsyncWith, ast.FunctionDef, ast.AsyncFunctionDef))
             and "msg.data" in norm.raw(st) and PC.has_lit(PC.pc(st, raw=True), "msg.type is WSMsgType.CLOSE", True) is not None]
    clean = [st for st in takes if any(isinstance(x, ast.Return) and x.lineno > st.lineno for x in (PC._block_of(st) or []))]
    if clean:
        chk.ok("C13.codes", clean[0], f"{tag} close(): a clean handshake reports the peer's code (msg.data)")
    else:
        chk.violation("C13.codes", close, "if msg.type is WSMsgType.CLOSE: <code = msg.data>; return True", "", f"{tag} the peer's close code is not reported")
    # ---- closewait (break a pending receive) -------------------------------------------------------------------------------
    cw = [a for a in prog.awaits_in(close.node) if norm.raw(a.value) == "self._close_wait"]
    if cw and PC.has_lit(PC.pc(cw[0]), "self._waiting", True) is not None and M.contains(close.node, "$R.feed_data(WS_CLOSING_MESSAGE)"):
        chk.ok("C13.closewait", cw[0], f"{tag} close(): a pending receive() is woken with the CLOSING marker and waited for before the reader is used")
    else:
        chk.violation("C13.closewait", close, "if self._waiting: ...feed_data(WS_CLOSING_MESSAGE); await self._close_wait", "", f"{tag} close() reads from the queue while another task is inside receive()")
    # ---- pong ----------------------------------------------------------------------------------------------------------------
    hp = cls.methods["_handle_ping_pong_exception"]
    gh = cfg_of(hp.node)
    l2 = K.nodes_matching(hp, "self._set_closed()")
    if l2:
        K.must_pass(chk, "C13.pong", hp, l2, lambda n: tclose(n), f"{tag} ping/pong failure closes the transport", construct="self._set_closed()", missing=" / ".join(sp["tclose"]))
        txt = norm.raw(hp.node)
        if "WSCloseCode.ABNORMAL_CLOSURE" in txt and "feed_data(WSMessageError(" in txt.replace("self._reader.", "") and "self._waiting" in txt:
            chk.ok("C13.pong", hp, f"{tag} ping/pong failure reports 1006 and wakes a blocked receive() with an error message")
        else:
            chk.violation("C13.pong", hp, "_handle_ping_pong_exception", "1006 + feed_data(WSMessageError) when _waiting", f"{tag} a missed PONG does not end a blocked receive()")
    else:
        chk.violation("C13.pong", hp, "self._set_closed()", "", f"{tag} ping/pong failure does not close the session")
    for q in ("_pong_not_received", "_ping_task_done"):
        if K.exprs(cls.methods[q], "self._handle_ping_pong_exception($E)"):
            chk.ok("C13.pong", cls.methods[q], f"{tag} {q}() routes into _handle_ping_pong_exception")
        else:
            chk.violation("C13.pong", cls.methods[q], q, "self._handle_ping_pong_exception(...)", f"{tag} {q}() no longer ends the session")
    # ---- heartbeat timer handle: the callback clears / re-arms its own handle on every path ----
    hb = cls.methods.get("_send_heartbeat")
    if hb is not None:
        ghb = cfg_of(hb.node)
        def sets_handle(n):
            return n.kind == "stmt" and isinstance(n.ast, ast.Assign) and any(norm.raw(t) == "self._heartbeat_cb" for t in n.ast.targets)
        pth = ghb.find_path([ghb.entry], lambda n: n is ghb.exit, sets_handle, EXPLICIT)
        if pth is None:
            chk.ok("C13.heartbeat", hb, f"{tag} _send_heartbeat(): the fired timer handle is cleared (or replaced) on every path")
        else:
            chk.violation("C13.heartbeat", hb, "_send_heartbeat", "self._heartbeat_cb = None on every path",
                          f"{tag} the heartbeat callback can return with its fired handle still stored: _reset_heartbeat() only arms a timer when the handle is None, so the heartbeat (ping and pong timeout) never runs again and a silent peer blocks receive() forever",
                          path=ghb.fmt_path(pth))
        rh = cls.methods.get("_reset_heartbeat")
        if rh is not None and K.exprs(rh, "loop.call_at(when, self._send_heartbeat)") and PC.has_lit(PC.pc(K.exprs(rh, "loop.call_at(when, self._send_heartbeat)")[0][0]), "self._heartbeat_cb is None", True) is not None:
            chk.ok("C13.heartbeat", rh, f"{tag} _reset_heartbeat() arms the timer when no handle is stored")
    # ---- receive dispatch ---------------------------------------------------------------------------------------------------------
    first_await = min((a.lineno for a in prog.awaits_in(recv.node)), default=10**9)
    rz = [(n, c) for n, c in K.raises_in(recv.node) if c == "RuntimeError" and PC.has_lit(PC.pc(n), "self._waiting", True) is not None]
    if rz and rz[0][0].lineno < first_await:
        chk.ok("C13.receive", rz[0][0], f"{tag} receive(): a concurrent receive() is refused before anything is awaited")
    else:
        chk.violation("C13.receive", recv, "if self._waiting: raise RuntimeError", "before the first await", f"{tag} two tasks can be inside receive() at once")
    cr = [r for r in ast.walk(recv.node) if isinstance(r, ast.Return) and norm.raw(r.value) == "WS_CLOSED_MESSAGE" and PC.has_lit(PC.pc(r), "self._closed", True) is not None]
    if cr:
        chk.ok("C13.receive", cr[0], f"{tag} receive() on a closed session returns the CLOSED message without awaiting")
    else:
        chk.violation("C13.receive", recv, "if self._closed: return WS_CLOSED_MESSAGE", "", f"{tag} receive() on a closed session blocks")
    ac = [c for c, _b in K.exprs(recv, "self.close(...)") if PC.has_lit(PC.pc(c), "msg.type is WSMsgType.CLOSE", True) is not None]
    if ac and PC.has_lit(PC.pc(ac[0]), "self._autoclose", True) is not None and PC.has_lit(PC.pc(ac[0]), "self._closed", False) is not None:
        chk.ok("C13.auto", ac[0], f"{tag} a received CLOSE is answered by close() under autoclose (and not if already closed)")
    else:
        chk.violation("C13.auto", recv, "if msg.type is WSMsgType.CLOSE: ... await self.close()", "(self._autoclose) & !(self._closed)", f"{tag} auto-close on a received CLOSE changed")
    sc = [s for s in ast.walk(recv.node) if isinstance(s, ast.Call) and norm.raw(s.func) == "self._set_closing" and PC.has_lit(PC.pc(s), "msg.type is WSMsgType.CLOSE", True) is not None]
    if sc:
        chk.ok("C13.auto", sc[0], f"{tag} a received CLOSE marks the session closing (no data frame is sent afterwards)")
    else:
        chk.violation("C13.auto", recv, "self._set_closing(...)", "on CLOSE", f"{tag} a received CLOSE does not mark the session closing")
    pg = [c for c, _b in K.exprs(recv, "self.pong(msg.data)")]
    if pg and PC.has_lit(PC.pc(pg[0]), "self._autoping", True) is not None and PC.has_lit(PC.pc(pg[0]), "msg.type is WSMsgType.PING", True) is not None:
        chk.ok("C13.auto", pg[0], f"{tag} PING is answered with PONG(msg.data) under autoping")
    else:
        chk.violation("C13.auto", recv, "await self.pong(msg.data)", "(msg.type is WSMsgType.PING) & (self._autoping)", f"{tag} auto-pong changed")
    # error mapping in receive: every handler that swallows closes or re-raises
    for t in [t for t in ast.walk(recv.node) if isinstance(t, ast.Try) and t.handlers]:
        for h in t.handlers:
            types = PC.handler_types(h)
            body = " ".join(norm.raw(s) for s in h.body)
            if isinstance(h.body[-1], ast.Raise):
                continue
            if "self.close(" in body or "self._set_closed()" in body:
                chk.ok("C13.receive", h, f"{tag} receive(): `except {'/'.join(types)}` ends the session (close / closed) before returning a terminal message")
            else:
                chk.violation("C13.receive", h, f"except {'/'.join(types)}", "close()/_set_closed() or re-raise", f"{tag} receive() swallows an error without ending the session: the next receive() blocks on a dead connection")


def hunt4(chk, repo, sp):
    """Rules written after the fourth defect hunt (F260-F263)."""
    mod, cn, side = sp["mod"], sp["cls"], sp["side"]
    cls = repo.cls(mod, cn)
    close, recv = K.with_tail_delegate(cls, "close"), cls.methods["receive"]
    tag = f"[{side}]"
    # ---- C13.wake (takeover): a receive() that finds the session closing does not run a close() of its own over one that is under way --------------
    own = [c for c in prog.calls_in(recv.node) if norm.raw(c.func) == "self.close" and PC.has_lit(PC.pc(K.stmt_of(c), raw=True), "self._closing", True) is not None]
    for c in own:
        lits = PC.units(PC.pc(K.stmt_of(c), raw=True))
        if any(l.pos and l.text == "self._close_wait is None" for l in lits) or any(not l.pos and l.text == "self._close_wait is not None" for l in lits):
            chk.ok("C13.wake", c, f"{tag} receive(): while the close() of another task is between waking the receiver and taking over (_close_wait set), receive() reports CLOSED and leaves the handshake to it")
        elif side == "client":
            chk.violation("C13.wake", c, K.short(c), "if self._close_wait is None: await self.close()",
                          f"{tag} close(code=4001, message=b'bye') sets only _closing before it wakes the parked receiver; a `while True: await ws.receive()` loop calls receive() again, sees _closing and runs its own close() with the defaults: the peer gets Close(1000, '') instead of Close(4001, 'bye'), the caller's close() returns False with close_code None")
        else:
            chk.ok("C13.wake", c, f"{tag} receive(): close() latches _closed before it wakes the receiver, a second close() returns at once")
    # ---- C13.wait (running close): a close() that finds the session latched waits for the handshake that is still running ------------------------------
    g = cfg_of(close.node)
    tests = [n for n in g.nodes if n.kind == "test" and norm.raw(n.ast) == "self._closed"]
    early = [n for n in g.nodes if n.kind == "stmt" and isinstance(n.ast, ast.Return) and isinstance(n.ast.value, ast.Constant) and n.ast.value.value is False]
    waits = [n for n in g.nodes if n.ast is not None and any(isinstance(a, ast.Await) for a in ast.walk(n.ast)) and n.kind == "stmt"]
    if True:  # both classes since the fifth hunt (F307: the client had nothing like the server's _close_done)
        if not tests or not early:
            chk.analysis_error(f"C13.wait: the `if self._closed: return False` of {cn}.close() was not found")
        else:
            # the only path without a wait is the one where no handshake object exists (nothing is running)
            p = K.find_path_edges(g, tests, lambda n: n in early, lambda n: n in waits, lambda n, t, k: k != "T" and n in tests)
            cond = [n for n in (p or []) if n.kind == "test" and n not in tests]
            if p is None or all("is not None" in norm.raw(n.ast) or "is None" in norm.raw(n.ast) for n in cond) and cond:
                chk.ok("C13.wait", early[0].ast, f"{tag} close() on a session another task is closing waits for that handshake to end before it returns (the handler's exit must not drop the transport under it)")
            else:
                chk.violation("C13.wait", early[0].ast, "if self._closed: return False", "await the running close (an Event / future set in its finally) before returning",
                              f"{tag} ws.close() from another task (the documented on_shutdown pattern) wakes the handler's receive loop; the handler returns, finish_response() calls close() again, which returns False at once, and start() closes the transport while the first close() is still waiting for the peer's Close: it ends with 1006 although the peer answered 1000")
    # ---- C13.heartbeat (same iteration): data read in the iteration in which the pong deadline fires counts ---------------------------------------------
    pn = cls.methods.get("_pong_not_received")
    verdicts = [c for c, _b in K.exprs(pn, "self._handle_ping_pong_exception($E)")] if pn is not None else []
    for v in verdicts:
        if any(l.text == "self._need_heartbeat_reset" and not l.pos for l in PC.units(PC.pc(K.stmt_of(v), raw=True))):
            chk.ok("C13.heartbeat", v, f"{tag} _pong_not_received(): no verdict while a heartbeat reset is pending (the PONG was read in this loop iteration, its deferred reset has not run yet)")
        else:
            chk.violation("C13.heartbeat", v, K.short(v, 60), "if self._need_heartbeat_reset: return",
                          f"{tag} _on_data_received() only marks the heartbeat for reset and defers the reset with call_soon; asyncio runs I/O callbacks before the timers due in the same iteration, so a PONG read in the iteration of the deadline is ignored: the connection is closed with 1006 `No PONG received` although the PONG is in hand")


def hunt5(chk, repo, sp):
    """Rules written after the fifth defect hunt (F306, F308, F309)."""
    mod, cn, side = sp["mod"], sp["cls"], sp["side"]
    cls = repo.cls(mod, cn)
    close, recv = K.with_tail_delegate(cls, "close"), cls.methods["receive"]
    tag = f"[{side}]"
    g = cfg_of(close.node)
    # ---- C13.wake (takeover by the woken task): close() defers to the close() that is between waking the receiver and going on ------------------------------
    # Where close() marks only `_closing` before it wakes the parked receive() (client), the woken task leaves its loop and may call close() -
    # through `async with` - before the waker resumes: it must not find the session open and send Close(1000) over the caller's code.
    sets_wait = [a for a in ast.walk(close.node) if isinstance(a, ast.Assign) and norm.raw(a.targets[0]) == "self._close_wait" and not (isinstance(a.value, ast.Constant) and a.value.value is None)]
    latch_before_wake = False
    if sets_wait:
        swn = [n for n in g.nodes if n.in_finally_copy is None and n.ast is sets_wait[0]]
        latches = [n for n in g.nodes if n.kind == "stmt" and isinstance(getattr(n, "ast", None), ast.AST) and (K.node_has(n, "self._set_closed()") or norm.raw(n.ast) == "self._closed = True")]
        latch_before_wake = bool(swn) and bool(latches) and g.find_path([g.entry], lambda n: n in swn, lambda n: n in latches, EXPLICIT) is None
    if sets_wait and not latch_before_wake:
        defer = [w for w in ast.walk(close.node) if isinstance(w, ast.While) and "self._close_wait is not None" in norm.raw(w.test) and any(isinstance(a, ast.Await) for a in ast.walk(w))]
        tests = [i for i in ast.walk(close.node) if isinstance(i, ast.If) and norm.raw(i.test) == "self._closed"]
        if defer and tests and defer[0].lineno < tests[0].lineno:
            chk.ok("C13.wake", defer[0], f"{tag} close(): while another task's close() is between waking receive() and resuming (_close_wait set, nobody waiting), this call yields: the waker goes on with its own code and message")
        else:
            chk.violation("C13.wake", sets_wait[0], K.short(sets_wait[0]), "while self._close_wait is not None and not self._waiting: await asyncio.sleep(0)   before `if self._closed`",
                          f"{tag} task B calls ws.close(code=4001, message=b'bye') while the main task runs `async with session.ws_connect() as ws: async for msg in ws`: B wakes the parked receive() before it latches _closed; the woken task leaves the loop and the context manager's close() finds the session open and sends Close(1000, b'') - the server sees 1000 instead of 4001 and B's close() returns False with close_code None")
    # ---- C13.closewait.ping (F308): the wait for the peer's CLOSE still answers PING ------------------------------------------------------------------------------
    loops = [l for l in ast.walk(close.node) if isinstance(l, ast.While) and any(isinstance(a, ast.Await) and norm.raw(a.value) in ("self._reader.read()", "reader.read()") for a in ast.walk(l))]
    if not loops:
        chk.analysis_error(f"C13.closewait.ping: the loop that waits for the peer's CLOSE was not found in {cn}.close()")
    else:
        pongs = [c for c in prog.calls_in(loops[0]) if norm.raw(c.func) in ("self.pong", "self._writer.send_frame") and any(l.pos and "PING" in l.text for l in PC.units(PC.pc(K.stmt_of(c), stop=loops[0], raw=True)))]
        if pongs:
            chk.ok("C13.closewait.ping", pongs[0], f"{tag} close(): a PING that arrives before the peer's CLOSE is answered (RFC 6455 5.5.2)")
        else:
            chk.violation("C13.closewait.ping", loops[0], K.short(loops[0], 60), "if msg.type is WSMsgType.PING: await self.pong(msg.data)",
                          f"{tag} the wait loop of close() discards every frame that is not CLOSE and never answers PING: if the closing side is busy for 1.5 x the peer's heartbeat while the peer's CLOSE sits unread, the peer's pong timer fires and aborts with 1006 `No PONG received` - both ends of a clean close report 1006")
    # ---- C13.timeout.receive (F309): the receive timeout is one deadline for the call ----------------------------------------------------------------------------
    rl = [l for l in ast.walk(recv.node) if isinstance(l, ast.While)]
    scopes = [w for w in ast.walk(recv.node) if isinstance(w, ast.AsyncWith)]
    rel = [w for w in scopes if any(norm.raw(it.context_expr.func) in ("async_timeout.timeout", "asyncio.timeout") for it in w.items if isinstance(it.context_expr, ast.Call))
           and any(x is w for l in rl for x in ast.walk(l))
           and not any(isinstance(it.context_expr, ast.Call) and it.context_expr.args and isinstance(it.context_expr.args[0], ast.Constant) and it.context_expr.args[0].value is None for it in w.items)]
    if rel:
        chk.violation("C13.timeout.receive", rel[0], K.short(rel[0].items[0].context_expr), "deadline = loop.time() + receive_timeout  before the loop; async_timeout.timeout_at(deadline)",
                      f"{tag} every read inside the receive() loop gets a fresh timeout(receive_timeout), and the loop starts over after an auto-answered PING or a skipped PONG: with a heartbeat shorter than the receive timeout (30 s / 60 s) - or a peer that only sends PINGs - TimeoutError can never be raised")
    else:
        abs_ = [w for w in scopes if any(isinstance(it.context_expr, ast.Call) and norm.raw(it.context_expr.func) in ("async_timeout.timeout_at", "asyncio.timeout_at") for it in w.items)]
        if abs_:
            dn = norm.raw(abs_[0].items[0].context_expr.args[0])
            dd = [d for d in norm.fn_defs(recv.node).def_nodes(dn)] if dn.isidentifier() else []
            inside = any(any(x is d for l in rl for x in ast.walk(l)) for d in dd)
            if dd and not inside:
                chk.ok("C13.timeout.receive", abs_[0], f"{tag} receive(): the reads and the automatic PONG share one deadline computed before the loop")
            else:
                chk.violation("C13.timeout.receive", abs_[0], K.short(abs_[0].items[0].context_expr), "deadline computed once, before the loop", f"{tag} the deadline of receive() is computed anew inside the loop: PING/PONG traffic re-arms the timeout")
        else:
            chk.ok("C13.timeout.receive", recv, f"{tag} receive() has no relative timeout scope inside its loop")


def hunt3(chk, repo, sp):
    """Rules written after the third defect hunt (F190, F191)."""
    from rules.C12 import _self_attrs_set
    mod, cn, side = sp["mod"], sp["cls"], sp["side"]
    cls = repo.cls(mod, cn)
    close, recv = K.with_tail_delegate(cls, "close"), cls.methods["receive"]
    tag = f"[{side}]"
    # ---- C13.wake: a receive() woken by close() leaves the handshake to close() ------------------------------------------------------------
    # close() in another task breaks the parked receive() with WS_CLOSING_MESSAGE and goes on (send CLOSE, wait for the peer's).  Where close()
    # has a short cut on a flag after that wake-up (`if self._closing: close transport, return`), the woken receive() must not raise that
    # flag on behalf of the close() that is running: the peer's CLOSE would never be waited for.
    wake = [c for c, _b in K.exprs(close, "$R.feed_data(WS_CLOSING_MESSAGE)")]
    if not wake:
        chk.analysis_error(f"C13.wake: {cn}.close() does not wake a parked receive() with WS_CLOSING_MESSAGE")
    else:
        reads = [a for a in prog.awaits_in(close.node) if isinstance(a.value, ast.Call) and norm.raw(a.value.func).endswith("reader.read")]
        shortcuts = set()
        for r in [r for r in ast.walk(close.node) if isinstance(r, ast.Return) and wake[0].lineno < r.lineno < (reads[0].lineno if reads else 10**9)]:
            for l in PC.units(PC.pc(r, raw=True)):
                if l.pos and l.text.startswith("self._") and l.text.isidentifier() is False and "(" not in l.text and " " not in l.text:
                    shortcuts.add(l.text.split(".", 1)[1])
        br = [i for i in ast.walk(recv.node) if isinstance(i, ast.If) and M.contains(i.test, "msg.type is WSMsgType.CLOSING")]
        if not br:
            chk.analysis_error(f"C13.wake: {cn}.receive() has no branch for WSMsgType.CLOSING")
        else:
            bad = []
            # only a test made after the wake-up counts (self._closed was also looked at before the read, an await ago)
            top = br[0]
            while isinstance(getattr(top, "parent", None), ast.If) and top in top.parent.orelse:
                top = top.parent
            for st in br[0].body:
                for sub in ast.walk(st):
                    if isinstance(sub, ast.stmt) and not isinstance(sub, (ast.If,)) and (_self_attrs_set(cls, [sub]) & shortcuts):
                        own_test = [l for c_ in norm.cnf_raw(br[0].test, True) if len(c_) == 1 for l in c_]  # `... is CLOSING and not self._closed`
                        if not any(l.text == "self._closed" and not l.pos for l in list(PC.units(PC.pc(sub, stop=top, raw=True))) + own_test):
                            bad.append(sub)
            if not bad:
                chk.ok("C13.wake", br[0], f"{tag} receive(): woken by close() (`_closed` already latched) it does not set {sorted(shortcuts) or 'any flag close() short-cuts on'}")
            for sub in bad:
                chk.violation("C13.wake", sub, K.short(sub), "if not self._closed: ...",
                              f"{tag} close() called while another task is parked in receive(): the woken receive() sets {sorted(_self_attrs_set(cls, [sub]) & shortcuts)}, close() then takes its `already closing` short cut - the transport is closed right after our CLOSE "
                              "without waiting for the peer's, and close_code reports 1000 for a handshake that never completed")
    # ---- C13.flush: our CLOSE frame has left the write buffer before a close that discards unsent bytes --------------------------------------------
    # The client closes through ResponseHandler.close(), which aborts the transport when unsent bytes remain (a graceful close would wait
    # for ever on a peer that stopped reading).  The CLOSE frame queued behind older frames must therefore be flushed first, inside the
    # close deadline - otherwise the peer sees a reset (1006) for a handshake this side reports as clean.
    rh_close = repo.func("aiohttp/client_proto.py", "ResponseHandler.close")
    discards = any(isinstance(c, ast.Call) and norm.raw(c.func).endswith("transport.abort") for c in ast.walk(rh_close.node))
    if side == "client" and discards:
        g = cfg_of(close.node)
        sent = [n for n in g.nodes if K.node_has(n, "self._writer.close($C, $M)")]
        rclose = [n for n in g.nodes if n.kind == "stmt" and K.node_has(n, "self._response.close()") and not list(prog.enclosing(n.ast, (ast.ExceptHandler,)))]
        flushes = [n for n in g.nodes if any(isinstance(a, ast.Await) and isinstance(a.value, ast.Call) and isinstance(a.value.func, ast.Attribute) and a.value.func.attr in ("flush", "drain", "_drain_helper") for a in ast.walk(n.ast))]
        if not sent or not rclose:
            chk.analysis_error(f"C13.flush: {cn}.close(): the Close frame send / response close were not found")
        else:
            p = g.find_path(sent, lambda n: n in rclose, lambda n: n in flushes, EXPLICIT)
            if p is None:
                chk.ok("C13.flush", rclose[0].ast, f"{tag} close(): on every path from sending the Close frame to closing the response the write buffer is flushed (inside the close deadline)")
            else:
                chk.violation("C13.flush", rclose[0].ast, K.short(rclose[0].ast), "await self._writer.flush() before self._response.close()",
                              f"{tag} close() closes the response right after queueing its CLOSE frame; ResponseHandler.close() aborts a transport with unsent bytes, so with a backlog of earlier frames the CLOSE (and the backlog) is thrown away: the peer ends with 1006 while this side reports a clean close", path=g.fmt_path(p))
    # ---- C13.timeout: the close budget is spent once: the phases of close() share one deadline ------------------------------------------------------
    scopes = [w for w in ast.walk(close.node) if isinstance(w, ast.AsyncWith) and K.timeout_budget(w, close.node) == sp["timeout_attr"]]
    if len(scopes) <= 1:
        chk.ok("C13.timeout", scopes[0] if scopes else close, f"{tag} close(): one timeout scope spends the close budget")
    else:
        dl = {norm.raw(it.context_expr.args[0]) if norm.raw(it.context_expr.func).endswith("timeout_at") else None for w in scopes for it in w.items}
        if len(dl) == 1 and None not in dl:
            chk.ok("C13.timeout", scopes[0], f"{tag} close(): its {len(scopes)} phases run against one deadline `{next(iter(dl))}`")
        else:
            chk.violation("C13.timeout", scopes[1], K.short(scopes[1], 60), "deadline = loop.time() + <close timeout>; async with async_timeout.timeout_at(deadline) in every phase",
                          f"{tag} close() gives each of its {len(scopes)} phases (sending the CLOSE, waiting for the peer's) a full close timeout of its own: a peer that stalls in both holds close() for {len(scopes)}x the configured timeout")
    # ---- C13.timeout: the automatic PONG is sent inside receive() and bounded like the read -----------------------------------------------------
    pongs = [a for a in prog.awaits_in(recv.node) if isinstance(a.value, ast.Call) and norm.raw(a.value.func) == "self.pong"]
    if not pongs:
        chk.analysis_error(f"C13.timeout: the auto-pong of {cn}.receive() was not found")
    for a in pongs:
        scoped = [w for w in prog.enclosing(a, (ast.AsyncWith,)) if K.timeout_budget(w, recv.node) is not None]
        if scoped:
            chk.ok("C13.timeout", a, f"{tag} receive(): the automatic PONG is under `{norm.raw(scoped[-1].items[0].context_expr)}`")
        else:
            chk.violation("C13.timeout", a, K.short(a), "async with async_timeout.timeout(receive_timeout or None)",
                          f"{tag} receive(timeout=...) answers a PING with an unbounded send: a peer that pings and stops reading (write buffer over the limit) parks receive() in the drain helper for ever, past its receive timeout")


def abnormal(chk, repo, sp):
    """An abnormal end (1006) has nothing more to say to the peer: the transport is aborted, not closed gracefully - a graceful close waits
    until the write buffer is flushed, which a peer that stopped reading never allows (the socket stays open, a sender blocked in drain and
    a pending receive() are never released).  Rules written after the second defect hunt (F143-F144)."""
    mod, cn, side = sp["mod"], sp["cls"], sp["side"]
    cls = repo.cls(mod, cn)
    tag = f"[{side}]"

    def aborts(node, depth=2) -> bool:
        for c in ast.walk(node):
            if isinstance(c, ast.Call) and isinstance(c.func, ast.Attribute):
                if c.func.attr == "abort":
                    return True
                if depth and isinstance(c.func.value, ast.Name) and c.func.value.id == "self" and c.func.attr in cls.methods and c.func.attr not in ("close", "receive"):
                    if aborts(cls.methods[c.func.attr].node, depth - 1):
                        return True
        return False

    n = 0
    for name, m in cls.methods.items():
        for a in ast.walk(m.node):
            if not (isinstance(a, ast.Assign) and norm.raw(a.targets[0]) == "self._close_code" and "ABNORMAL_CLOSURE" in norm.raw(a.value)):
                continue
            n += 1
            blk = PC._block_of(a) or []
            rest = blk[blk.index(a) + 1:] if a in blk else []
            lost = any(isinstance(h_, ast.ExceptHandler) and {"ClientError", "ConnectionError", "ClientConnectionError", "ServerDisconnectedError"} & set(PC.handler_types(h_)) for h_ in prog.enclosing(a, (ast.ExceptHandler,)))
            if lost:
                chk.ok("C13.abort", a, f"{tag} {name}(): 1006 after the connection was lost (nothing left to abort)")
            elif any(isinstance(c, ast.Call) and norm.raw(c.func) == "self.close" for x in rest for c in ast.walk(x)):
                chk.ok("C13.abort", a, f"{tag} {name}(): the code is provisional, close() runs next and decides how the transport ends")
            elif any(aborts(x) for x in rest):
                chk.ok("C13.abort", a, f"{tag} {name}(): reporting 1006 aborts the transport")
            else:
                chk.violation("C13.abort", a, K.short(a), "transport.abort() after the abnormal-closure code is set",
                              f"{tag} {name}() reports 1006 and closes the transport gracefully: with data still buffered for a peer that stopped reading the socket stays open (also after session.close() / the handler returned), a sender blocked in drain and a pending receive() are never released")
    # the server funnels the code through one helper that takes it as an argument
    hs = cls.methods.get("_set_code_close_transport")
    if hs is not None:
        n += 1
        ab = [c for c in ast.walk(hs.node) if isinstance(c, ast.Call) and isinstance(c.func, ast.Attribute) and c.func.attr == "abort"]
        if ab and any("ABNORMAL_CLOSURE" in l.text for c in PC.pc(ab[0], raw=True) for l in c):
            chk.ok("C13.abort", ab[0], f"{tag} _set_code_close_transport(): the transport is aborted when the code is 1006")
        else:
            chk.violation("C13.abort", hs, "_set_code_close_transport(code)", "if code == WSCloseCode.ABNORMAL_CLOSURE: transport.abort()",
                          f"{tag} an abnormal closure (close timeout against a non-reading peer, pong timeout) closes the transport gracefully: transport.close() drops the reader and waits for megabytes of buffered data that never drain - receive() is never woken, a sender blocked in drain stays blocked, the fd stays open")
        # and a late EOF does not rewrite the reported code
        rc = cls.methods["receive"]
        for h in [h for t in ast.walk(rc.node) if isinstance(t, ast.Try) for h in t.handlers if "EofStream" in PC.handler_types(h)]:
            oks = [a for a in ast.walk(h) if isinstance(a, ast.Assign) and norm.raw(a.targets[0]) == "self._close_code"]
            for a in oks:
                if PC.has_lit(PC.pc(a, stop=h, raw=True), [("self._closed", False), ("not self._closed", True), ("self._close_code is None", True)], True) is not None:
                    chk.ok("C13.codes", a, f"{tag} receive(): the end of the stream reports 1000 only if close() has not reported a code already")
                else:
                    chk.violation("C13.codes", a, K.short(a), "if not self._closed: self._close_code = WSCloseCode.OK",
                                  f"{tag} receive(): when the peer finally leaves after close() timed out, the EOF branch rewrites the reported close code from 1006 to 1000")
    chk.expect_count("C13.abort", n, 1, f"abnormal-closure sites in {cn}")
