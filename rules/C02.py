"""C02 Wire round trip (DESIGN 5/C02): necessary structural conditions only - tables shared by both ends, every sender path selects a
framing or really closes, header says chunked iff writer chunks, keep-alive decision agreement, EOF emission, headers flushed once."""
from __future__ import annotations

import ast
import itertools

from sa import match as M, norm, pc as PC, prog, rulekit as K
from sa.cfg import EXPLICIT, cfg_of
from sa.consteval import Folder, NotConst
from sa.dtable import Evaluator
from sa.loader import AnalysisError

HELPERS = "aiohttp/helpers.py"
HP = "aiohttp/http_parser.py"
HW = "aiohttp/http_writer.py"
WRESP = "aiohttp/web_response.py"
REQ = "aiohttp/client_reqrep.py"
CPROTO = "aiohttp/client_proto.py"
WPROTO = "aiohttp/web_protocol.py"
V10, V11 = (1, 0), (1, 1)


class Dict(dict):
    """env table that also answers `.get` / `in` / setdefault for the evaluator."""


def run(chk):
    repo = chk.repo
    folder = Folder(repo)
    chk.explanation = (
        "Decided structurally (necessary conditions, not the round trip itself): sender and receiver read the same two empty-body tables, which fold to "
        "{1xx,204,304} and {HEAD}; on every combination of (chunked, length known, HTTP version, must-be-empty) the response header preparation selects "
        "chunked framing, a known length, an empty body, or makes the connection close *for the protocol loop too*; the client body selection leaves a "
        "non-empty body with Content-Length or chunked; `Transfer-Encoding: chunked` is stored exactly where the writer is switched to chunked mode "
        "(server: same block; client: same predicate over chunked in {None, False, True}); the receive-side body selection equals RFC 9112 6.3 on its "
        "decision table; sender and receiver Connection-header tables compose to `close iff not keep-alive` for both versions and directions; the "
        "success paths emit EOF; buffered headers are flushed once."
    )
    chk.not_decided = "equality of method / path / query / headers / body end to end, segmentation independence of the composition beyond the resumable-parser rules shared with C03 (C02.rx.*), compression transparency, Expect: 100-continue sequencing (the bulk of the property)."
    chk.explanation += " Also decided: the request-head parser's resumable-state rules (C02.rx.*, shared with C03), the multipart declared size (shared with C19) and `no body data on a response that must not have a body` (shared with C04) are evaluated here too. After the defect hunt: the client announces chunked framing whenever its writer will chunk-frame, and a caller-supplied Transfer-Encoding header switches the writer too."
    chk.explanation += " Round 4 / second hunt: a file read loop is left early only on known size / declared length; end-of-body is signalled only at message completion; a HEAD response without framing headers keeps the connection on both ends; a caller-supplied Transfer-Encoding header reaches the framing decision also for body-less methods. Known: text-mode file size (F130)."
    hmod = repo.module(HELPERS)
    # ---- tables ---------------------------------------------------------------------------------------------
    try:
        codes = set(folder.name(hmod, "EMPTY_BODY_STATUS_CODES"))
        meths = set(folder.name(hmod, "EMPTY_BODY_METHODS"))
    except NotConst as e:
        raise AnalysisError(f"C02.tables: {e}")
    if codes == set(range(100, 200)) | {204, 304} and meths == {"HEAD"}:
        chk.ok("C02.tables", (f"{HELPERS}:<module>", 0), "EMPTY_BODY_STATUS_CODES == {100..199, 204, 304}; EMPTY_BODY_METHODS == {HEAD}")
    else:
        chk.violation("C02.tables", (f"{HELPERS}:<module>", 0), "EMPTY_BODY_STATUS_CODES / EMPTY_BODY_METHODS", f"codes^={sorted(codes ^ (set(range(100, 200)) | {204, 304}))[:6]} methods={sorted(meths)}",
                      "the set of statuses / methods without a body differs from RFC 9110: one end sends (or waits for) a body the other does not")
    users = [(HELPERS, "must_be_empty_body", ("EMPTY_BODY_STATUS_CODES", "EMPTY_BODY_METHODS")), (HELPERS, "should_remove_content_length", ("EMPTY_BODY_STATUS_CODES",)),
             (HP, "HttpParser.feed_data", ("EMPTY_BODY_STATUS_CODES", "EMPTY_BODY_METHODS")), (CPROTO, "ResponseHandler.data_received", ("EMPTY_BODY_STATUS_CODES",))]
    for rel, q, names in users:
        f = repo.func(rel, q)
        for nm in names:
            used = any(isinstance(n, ast.Name) and n.id == nm for n in ast.walk(f.node))
            r = repo.resolve_name(f.module, nm)
            same = r is not None and r[0] == "const" and r[1].rel == HELPERS
            if used and same:
                chk.ok("C02.tables.shared", f, f"{q} reads helpers.{nm} (the one table both ends share)")
            else:
                chk.violation("C02.tables.shared", f, q, f"uses helpers.{nm}", f"{q} decides `no body` from a private literal instead of the shared table: sender and receiver can drift apart")
    # receiver-empty => sender-empty
    mb = repo.func(HELPERS, "must_be_empty_body")
    fd = repo.func(HP, "HttpParser.feed_data")
    eb = norm.fn_defs(fd.node).defs.get("empty_body", [])
    ret = [r for r in ast.walk(mb.node) if isinstance(r, ast.Return)]
    if eb and ret:
        bad = 0
        rows = 0
        for code, method in itertools.product((100, 101, 199, 200, 204, 299, 304, 404), ("GET", "HEAD", "CONNECT")):
            env = {"EMPTY_BODY_STATUS_CODES": codes, "EMPTY_BODY_METHODS": meths, "hdrs.METH_CONNECT": "CONNECT", "code": code, "method": method, "self.method": method}  # self.method: the method of the request the response answers
            rx = bool(Evaluator(env).ev(eb[0][1]))
            tx = bool(Evaluator(env).ev(ret[0].value))
            rows += 1
            if rx and not tx:
                bad += 1
                chk.violation("C02.tables.agree", eb[0][0], norm.raw(eb[0][1]), f"code={code} method={method}", "the receiver treats the message as body-less while the sender may send a body: the body bytes are parsed as the next message")
        if not bad:
            chk.ok("C02.tables.agree", eb[0][0], f"receiver `empty_body` implies sender `must_be_empty_body` on all {rows} (code, method) rows")
    else:
        chk.analysis_error("C02.tables.agree: empty_body / must_be_empty_body expressions not found")

    # ---- framing.server -------------------------------------------------------------------------------------------
    ph = repo.func(WRESP, "StreamResponse._prepare_headers")
    chain = [i for i in ph.node.body if isinstance(i, ast.If) and norm.raw(i.test) == "self._chunked"]
    if not chain:
        raise AnalysisError("C02.framing.server: `if self._chunked:` chain not found in _prepare_headers")
    after = ph.node.body[ph.node.body.index(chain[0]) + 1:]
    rows = bad = 0
    for chunked, lcheck, length, ver, empty, ka in itertools.product((False, True), (False, True), (None, 5), (V10, V11), (False, True), (True, False)):
        if not lcheck and not chunked:
            continue  # premise checked below: _length_check is only disabled for empty-body statuses
        env = {"self._chunked": chunked, "self._length_check": lcheck, "self.content_length": length, "version": ver, "HttpVersion11": V11, "HttpVersion10": V10,
               "self._must_be_empty_body": empty, "keep_alive": ka, "self._keep_alive": ka, "headers": Dict(), "hdrs.TRANSFER_ENCODING": "Transfer-Encoding",
               "request.version.major": ver[0], "request.version.minor": ver[1]}
        ev = Evaluator(env, opaque_calls=("writer.enable_chunking()",))
        # writer.length = self.content_length
        ev.run([chain[0]])
        acts = ev.actions
        if any(a.startswith("raise") for a in acts):
            continue
        # statements after the chain that may still write self._keep_alive
        later = [s for s in after if isinstance(s, ast.Assign) and any(norm.raw(t) == "self._keep_alive" for t in s.targets)]
        ev2 = Evaluator(ev.env)
        for s in later:
            try:
                ev2.run([s])
            except AnalysisError:
                pass
        chunking = "writer.enable_chunking()" in acts
        known = ev.env.get("writer.length", length if lcheck else None) is not None and lcheck and not chunked
        closes = ev2.env.get("self._keep_alive") is False
        rows += 1
        # (round 7, seed C02-7) to an HTTP/1.1 peer a body of unknown length is chunked whether or not the connection closes after it: only
        # then can the peer tell a complete body from a broken connection (and a client that does not read until EOF gets the body at all)
        if ver == V11 and length is None and lcheck and not empty and not chunking:
            bad += 1
            chk.violation("C02.framing.server", chain[0], "if version >= HttpVersion11:", f"writer.enable_chunking() [HTTP/1.1, length unknown, keep_alive={ka}]",
                          f"an HTTP/1.1 response of unknown length is sent without chunking when keep_alive={ka}: the end of the connection delimits the body, so a handler that fails after writing part of it delivers the fragment as a complete 200 body (no ClientPayloadError), and a request made with read_until_eof=False gets an empty body while the bytes are parsed as a further response")
            continue
        if not (empty or chunking or known or closes):
            bad += 1
            local_only = ev.env.get("keep_alive") is False
            chk.violation("C02.framing.server", chain[0], "keep_alive = False" if local_only else "if self._chunked: ... elif self._length_check: ...",
                          f"self._keep_alive = False [HTTP/{ver[0]}.{ver[1]}, chunked={chunked}]" if local_only else f"a framing choice [HTTP/{ver[0]}.{ver[1]}, chunked={chunked}, length={length}]",
                          f"chunked={chunked} length={length} HTTP/{ver[0]}.{ver[1]} must_be_empty={empty}: the body is delimited by closing the connection, but "
                          + ("only the local `keep_alive` is cleared: `resp.keep_alive` (read by the protocol loop) stays true, so the server keeps the connection open and an HTTP/1.0 client waits for the end of the body until the keep-alive timeout"
                             if local_only else "neither chunking, a length, nor a close is selected"))
    if not bad:
        chk.ok("C02.framing.server", chain[0], f"_prepare_headers: all {rows} rows select chunked / known length / empty body / a real close")
    chk.exhaustive_domains.append(f"C02.framing.server: {rows} rows")
    # premise of the exemption
    lw = prog.writers(repo, [WRESP, "aiohttp/web_ws.py", "aiohttp/web_fileresponse.py"], "_length_check")
    falses = [(f, n) for f, hits in lw.items() for n, _k in hits if isinstance(K.stmt_of(n), ast.Assign) and norm.raw(K.stmt_of(n).value) == "False"]
    okp = True
    for f, n in falses:
        cls = f.qualname.split(".")[0]
        if cls == "WebSocketResponse" or f.qualname == "FileResponse._not_modified":
            chk.ok("C02.framing.server", n, f"_length_check disabled in {f.qualname}: an empty-body status (101 / 304)")
        else:
            okp = False
            chk.violation("C02.framing.server", n, K.short(K.stmt_of(n)), f"{f.qualname}", "the length check is disabled for a response that may carry a body: no framing is selected for it")
    # ---- framing.client ----------------------------------------------------------------------------------------------
    ub = repo.func(REQ, "ClientRequest._update_body_from_data")
    sel = [i for i in ast.walk(ub.node) if isinstance(i, ast.If) and "not self.chunked" in norm.raw(i.test) and "CONTENT_LENGTH" in norm.raw(i.test) and "body.size" in norm.raw(i)]
    if not sel:
        chk.violation("C02.framing.client", ub, "if not self.chunked and CONTENT_LENGTH not in self.headers: ...", "", "client body framing selection not found")
    else:
        badc = 0
        for ch, has_cl, size in itertools.product((None, False, True), (False, True), (None, 3)):
            hd = Dict({"Content-Length": "9"} if has_cl else {})
            env = {"self.chunked": ch, "self.headers": hd, "hdrs.CONTENT_LENGTH": "Content-Length", "body.size": size, "str(size)": "3"}
            ev = Evaluator(env)
            ev.run([sel[0]])
            if not (ev.env.get("self.chunked") or "Content-Length" in hd):
                badc += 1
                chk.violation("C02.framing.client", sel[0], K.short(sel[0].test), f"chunked={ch} Content-Length present={has_cl} size={size}", "a request body leaves without Content-Length and without chunked framing")
        if not badc:
            chk.ok("C02.framing.client", sel[0], "a non-empty request body always gets Content-Length (known size) or chunked framing (12 rows)")
    # ---- chunkpair -------------------------------------------------------------------------------------------------------
    n = 0
    for c, _b in K.exprs(ph, "writer.enable_chunking()"):
        n += 1
        blk = PC._block_of(K.stmt_of(c))
        if any(norm.raw(s) == "headers[hdrs.TRANSFER_ENCODING] = 'chunked'" for s in blk):
            chk.ok("C02.chunkpair", c, "server: writer.enable_chunking() and `Transfer-Encoding: chunked` are set in the same block")
        else:
            chk.violation("C02.chunkpair", c, K.short(c), "headers[hdrs.TRANSFER_ENCODING] = 'chunked' in the same block", "the writer chunk-frames the body but the header does not say so (or vice versa)")
    for s, _b in K.stmts(ph, "headers[hdrs.TRANSFER_ENCODING] = 'chunked'"):
        blk = PC._block_of(s)
        if not any(M.contains(x, "writer.enable_chunking()") for x in blk):
            chk.violation("C02.chunkpair", s, K.short(s), "writer.enable_chunking() in the same block", "the header says chunked but the writer is not switched to chunked mode")
    chk.expect_count("C02.chunkpair", n, 2, "server chunking sites")
    ute = repo.func(REQ, "ClientRequest._update_transfer_encoding")
    cw = repo.func(REQ, "ClientRequest._create_writer")
    hs = [s for s, _b in K.stmts(ute, "self.headers[hdrs.TRANSFER_ENCODING] = 'chunked'")]
    ec = [c for c, _b in K.exprs(cw, "writer.enable_chunking()")]
    if hs and ec:
        badp = 0
        for ch in (None, False, True):
            def holds(node, stop=None):
                for cl in PC.pc(node, raw=True):
                    lits = [l for l in cl if "self.chunked" in l.text]
                    if not lits:
                        continue
                    v = False
                    for l in cl:
                        if "self.chunked" in l.text:
                            try:
                                val = bool(Evaluator({"self.chunked": ch}).ev(ast.parse(l.text, mode="eval").body))
                            except Exception:  # a literal that mixes the flag with other atoms: not decided here
                                v = True
                                continue
                            v = v or (val if l.pos else not val)
                        else:
                            v = True  # other literals (header contents): not decided here
                    if not v:
                        return False
                return True
            if holds(hs[0]) != holds(ec[0]):
                badp += 1
                chk.violation("C02.chunkpair", ec[0], K.short(K.stmt_of(ec[0]).parent.test if isinstance(K.stmt_of(ec[0]).parent, ast.If) else ec[0]), f"chunked={ch!r}",
                              f"client: with chunked={ch!r} the header {'is' if holds(hs[0]) else 'is not'} set to chunked but the writer {'is' if holds(ec[0]) else 'is not'} in chunked mode "
                              "(Content-Length together with a chunk-framed body)")
        if not badp:
            chk.ok("C02.chunkpair", ec[0], "client: header store and writer.enable_chunking() are guarded by the same predicate over chunked in {None, False, True}")
    else:
        chk.violation("C02.chunkpair", ute, "self.headers[TRANSFER_ENCODING] = 'chunked' / writer.enable_chunking()", "", "client chunking sites not found")
    # the function that announces the framing is reached whenever the writer will chunk-frame: its call sites are guarded by a condition that
    # `self.chunked` alone satisfies (a body-less GET with chunked=True still gets the terminator `0\\r\\n\\r\\n` from the writer)
    cr = repo.cls(REQ, "ClientRequest")
    sites = [c for m in cr.methods.values() for c in prog.calls_in(m.node) if norm.raw(c.func) == "self._update_transfer_encoding"]
    if not sites:
        chk.analysis_error("C02.chunkpair: no call of _update_transfer_encoding in ClientRequest")
    for c in sites:
        guard = next((i for i in prog.enclosing(c, (ast.If,)) if prog.in_body_of(c, i, "body")), None)
        cl = norm.cnf_raw(guard.test, True) if guard is not None else []
        narrowed = [cx for cx in cl if not any(l.text == "self.chunked" and l.pos for l in cx)]
        if not narrowed:
            chk.ok("C02.chunkpair", c, f"{c.fn.name}(): the Transfer-Encoding decision is taken whenever chunked is set")
        else:
            chk.violation("C02.chunkpair", c, K.short(c), "a guard that self.chunked satisfies on its own",
                          f"{c.fn.name}(): _update_transfer_encoding() is skipped for a body-less GET/HEAD/OPTIONS even with chunked=True, while _create_writer() enables chunk framing whenever chunked is set: `0\\r\\n\\r\\n` goes out after the header block without a Transfer-Encoding header and the server reads it as a malformed next request",
                          path_condition=norm.fmt_cnf(cl))
        # ... and one that a caller-supplied Transfer-Encoding header satisfies on its own (the header is sent as given: with `chunked` in it the
        # body-less GET announces a chunked body and must send the terminator)
        if c.fn.name == "__init__":
            narrowed2 = [cx for cx in cl if not any("hdrs.TRANSFER_ENCODING in self.headers" in l.text and l.pos for l in cx)]
            if not narrowed2:
                chk.ok("C02.chunkpair", c, "__init__(): the Transfer-Encoding decision is also taken whenever the caller supplied the header")
            else:
                chk.violation("C02.chunkpair", c, K.short(c), "a guard that `hdrs.TRANSFER_ENCODING in self.headers` satisfies on its own",
                              "__init__(): _update_transfer_encoding() is skipped for a body-less GET/HEAD/OPTIONS that carries the caller's `Transfer-Encoding: chunked` header: the header goes out but no `0\\r\\n\\r\\n` follows, and the server waits for a chunked body that never ends",
                              path_condition=norm.fmt_cnf(cl))
    # once a request is built, chunk framing is a latch: compression (whose output length is unknown) forces it, and nothing may lower it again
    # while the compressor stays configured - a Content-Length next to a compressed body declares the raw size over the deflated bytes
    nlat = 0
    for m in cr.methods.values():
        for a in ast.walk(m.node):
            if isinstance(a, ast.Assign) and any(norm.raw(t) == "self.chunked" for t in a.targets):
                nlat += 1
                if m.name == "__init__" or (isinstance(a.value, ast.Constant) and a.value.value is True):
                    chk.ok("C02.chunkpair", a, f"{m.name}(): chunked is " + ("initialised from the caller's argument" if m.name == "__init__" else "only ever raised"))
                else:
                    chk.violation("C02.chunkpair", a, K.short(a), "self.chunked = True (or leave it alone)",
                                  f"{m.name}() can lower `chunked` after the request was built: _update_content_encoding() raised it because the body is compressed on the fly, and with it lowered the replaced body goes out with `Content-Encoding: deflate` and `Content-Length: <raw size>` - the declared length is not the length of the bytes written (9000 declared, 95 sent; or bytes past the declared length)")
    chk.expect_count("C02.chunkpair.latch", nlat, 3, "assignments to ClientRequest.chunked")
    # a caller-supplied `Transfer-Encoding: chunked` header switches the writer to chunk framing too
    te = [a for a in ast.walk(ute.node) if isinstance(a, ast.Assign) and norm.raw(a) == "self.chunked = True"]
    if te and any("chunked" in norm.fmt_cnf(PC.pc(a)) for a in te):
        chk.ok("C02.chunkpair", te[0], "a caller-supplied `Transfer-Encoding: chunked` header turns chunk framing on (and Content-Length off)")
    else:
        chk.violation("C02.chunkpair", ute, "if 'chunked' in te: ...", "self.chunked = True", "a caller-supplied `Transfer-Encoding: chunked` header is sent together with an aiohttp-added Content-Length and an un-chunked body")
    # ---- clbody ----------------------------------------------------------------------------------------------------------------
    cb = [s for f in repo.module(WRESP).functions.values() for s in ast.walk(f.node) if isinstance(s, ast.Assign) and norm.raw(s.targets[0]) == "self._compressed_body" and not (isinstance(s.value, ast.Constant))]
    for s in cb:
        blk = PC._block_of(s)
        later = blk[blk.index(s) + 1:]
        if any("self._headers[hdrs.CONTENT_LENGTH] = str(len(self._compressed_body))" in norm.raw(x) for x in later):
            chk.ok("C02.clbody", s, "a pre-compressed body updates Content-Length from len(_compressed_body) right after it is set")
        else:
            chk.violation("C02.clbody", s, K.short(s), "self._headers[hdrs.CONTENT_LENGTH] = str(len(self._compressed_body))", "Content-Length still describes the uncompressed body")
    we = repo.func(WRESP, "Response.write_eof")
    bd = [i for i in ast.walk(we.node) if isinstance(i, ast.If) and norm.raw(i.test) == "self._compressed_body is None"]
    if bd and norm.raw(bd[0].body[0]) == "body = self._body" and norm.raw(bd[0].orelse[0]) == "body = self._compressed_body":
        chk.ok("C02.clbody", bd[0], "write_eof() sends the compressed body when there is one (the body whose length was declared)")
    else:
        chk.violation("C02.clbody", we, "body = self._body if self._compressed_body is None else self._compressed_body", "", "write_eof() sends a different body than the one whose length was declared")

    # ---- rxselect ------------------------------------------------------------------------------------------------------------------
    rxselect(chk, repo, fd, codes, meths)
    # ---- connhdr ---------------------------------------------------------------------------------------------------------------------
    connhdr(chk, repo)
    hunt3_rules(chk, repo)
    hunt4_rules(chk, repo)
    hunt5_rules(chk, repo)
    round6_rules(chk, repo)
    # ---- eof -----------------------------------------------------------------------------------------------------------------------------
    wb = repo.func(REQ, "ClientRequest._write_bytes")
    t = [t for t in ast.walk(wb.node) if isinstance(t, ast.Try) and t.orelse]
    if t and any(M.contains(s, "writer.write_eof()") for s in t[0].orelse) and any("write_with_length" in norm.raw(s) for s in t[0].body):
        chk.ok("C02.eof", t[0], "client: a successfully written body is followed by writer.write_eof() (try/else)")
    else:
        chk.violation("C02.eof", wb, "else: await writer.write_eof()", "", "client: the end of the request body is never signalled (chunked terminator missing)")
    sn = repo.func(REQ, "ClientRequestBase._send")
    se = [c for c, _b in K.exprs(sn, "writer.set_eof()")]
    if se and PC.has_lit(PC.pc(se[0]), "self._should_write($P)", False) is not None:
        chk.ok("C02.eof", se[0], "client: a request without body finishes the message at once (set_eof)")
    else:
        chk.violation("C02.eof", sn, "writer.set_eof()", "when there is no body to write", "client: a body-less request never completes its message")
    fr = repo.func(WPROTO, "RequestHandler.finish_response")
    gf = cfg_of(fr.node)
    weof = K.nodes_matching(fr, "resp.write_eof()")
    prep = K.nodes_matching(fr, "prepare_meth(request)")
    rets = [n for n in gf.nodes if n.kind == "stmt" and isinstance(n.ast, ast.Return) and norm.raw(n.ast.value).endswith("False") or n.kind == "stmt" and isinstance(n.ast, ast.Return) and "False" in norm.raw(n.ast.value)]
    if weof and prep and rets and gf.find_path([gf.entry], lambda n: n in rets, lambda n: n in weof, EXPLICIT) is None and gf.find_path([gf.entry], lambda n: n in weof, lambda n: n in prep, EXPLICIT) is None:
        chk.ok("C02.eof", weof[0].ast, "server: every normal return of finish_response passes prepare() and then resp.write_eof()")
    else:
        chk.violation("C02.eof", fr, "await prepare_meth(request); await resp.write_eof()", "", "server: a response can be reported finished without write_eof()")
    # ---- flushonce ---------------------------------------------------------------------------------------------------------------------------
    flushonce(chk, repo)
    # a request whose body was not fully sent / response not fully read must not leave the connection reusable on the client while the
    # server still expects the rest (both ends agree on whether the connection stays open) - shared with C06
    from rules import C06

    chk.include(C06.run, ("C06.closeonerror",), ("C06.closeonerror", "C02.reuse"))
    C06.eof_at_completion(chk, repo, rule="C02.eofdone")
    # the Content-Length a client derives from body.size is only truthful if a multipart body's declared size equals the bytes it writes
    # (shared with C19 / C04); the request-head parser's resumable-state rules carry the "however the stream is segmented" clause (shared with C03)
    from rules import C03, C19

    from rules import C04

    C04.bodiless(chk, repo, rule="C02.bodiless")
    C04.ioloop(chk, repo, rule="C02.ioloop")
    chk.include(C19.run, ("C19.size",), ("C19.", "C02.multipart."))
    chk.include(C03.run, ("C03.rp", "C03.save", "C03.bufshape", "C03.latch"), ("C03.", "C02.rx."))


def rxselect(chk, repo, fd, codes, meths):
    """Receive-side body framing selection == RFC 9112 6.3 on its decision table."""
    sel = [i for i in ast.walk(fd.node) if isinstance(i, ast.If) and norm.raw(i.test).startswith("not empty_body and (length is not None and length > 0 or msg.chunked)")]
    if not sel:
        chk.violation("C02.rxselect", fd, "if not empty_body and ((length is not None and length > 0) or msg.chunked): ...", "", "receive-side framing selection not found")
        return
    bad = rows = 0
    for empty, length, chunked, connect, until_eof, upgraded in itertools.product((False, True), (None, 0, 7), (False, True), (False, True), (False, True), (False, True)):
        if chunked and length is not None:
            continue  # TE + CL is refused earlier (C01)
        env = {"empty_body": empty, "length": length, "msg.chunked": chunked, "method": "CONNECT" if connect else "GET", "hdrs.METH_CONNECT": "CONNECT", "METH_CONNECT": "CONNECT", "self.read_until_eof": until_eof, "upgraded": upgraded}
        # which branch?
        node = sel[0]
        branch = None
        idx = 0
        while True:
            if Evaluator(env).ev(node.test):
                branch = idx
                break
            idx += 1
            if len(node.orelse) == 1 and isinstance(node.orelse[0], ast.If):
                node = node.orelse[0]
            else:
                branch = "else"
                break
        body = node.body if branch != "else" else node.orelse
        txt = " ".join(norm.raw(s) for s in body)
        got = "parser" if "HttpPayloadParser(" in txt and "self._upgraded = True" not in txt else "tunnel" if "self._upgraded = True" in txt and "HttpPayloadParser(" in txt else "upgrade" if "self._upgraded = True" in txt else "empty"
        if got == "parser":
            got = "chunked" if chunked else ("length" if length else "eof")
        # RFC 9112 6.3
        if empty:
            want = "tunnel" if connect else ("upgrade" if upgraded else "empty")
            # rule 1 applies first; a CONNECT request has no response-code yet (request side: method decides)
        elif chunked:
            want = "chunked"
        elif length:
            want = "length"
        elif connect:
            want = "tunnel"
        elif length is None and until_eof:
            want = "eof"
        elif upgraded:
            want = "upgrade"
        else:
            want = "empty"
        rows += 1
        if got != want:
            bad += 1
            if bad <= 4:
                chk.violation("C02.rxselect", sel[0], "payload framing selection", f"empty={empty} length={length} chunked={chunked} connect={connect} read_until_eof={until_eof} upgraded={upgraded}",
                              f"the receiver selects `{got}` where RFC 9112 6.3 gives `{want}`: sender and receiver disagree on where the message ends")
    if not bad:
        chk.ok("C02.rxselect", sel[0], f"receive-side framing selection equals RFC 9112 6.3 on all {rows} rows of (empty_body, length, chunked, CONNECT, read_until_eof, upgraded)")
        chk.exhaustive_domains.append(f"C02.rxselect: {rows} rows")
    # payload parser internal chain
    init = repo.func(HP, "HttpPayloadParser.__init__")
    txt = norm.raw(init.node)
    order = [txt.find("if not response_with_body"), txt.find("elif chunked"), txt.find("elif length is not None")]
    if all(o >= 0 for o in order) and order == sorted(order):
        chk.ok("C02.rxselect", init, "HttpPayloadParser: no-body > chunked > length > until-EOF, in this order")
    else:
        chk.violation("C02.rxselect", init, "if not response_with_body / elif chunked / elif length is not None", str(order), "the body parser's mode selection order changed (chunked must win over length)")


def _codec(c):
    """(encoding, errors) of a str.encode / bytes.decode call with constant arguments"""
    enc = c.args[0].value if c.args and isinstance(c.args[0], ast.Constant) else next((k.value.value for k in c.keywords if k.arg == "encoding" and isinstance(k.value, ast.Constant)), "utf-8")
    err = c.args[1].value if len(c.args) > 1 and isinstance(c.args[1], ast.Constant) else next((k.value.value for k in c.keywords if k.arg == "errors" and isinstance(k.value, ast.Constant)), "strict")
    return (str(enc).lower().replace("_", "-"), err)


_STATEFUL = ("getincrementalencoder", "getincrementaldecoder", "compressobj", "decompressobj", "ZLibCompressor", "ZLibDecompressor", "iterencode", "iterdecode")


def round6_rules(chk, repo):
    """Rule written after seeding round 6 (seed C02-6): a payload that can be sent again starts every pass with fresh codec state.
    A replayable payload (its class restores the start position of the underlying stream: redirects and retries send the same object again)
    may keep a stateful codec - an incremental encoder, a compression object - in an attribute only if every pass that restores the start
    position also replaces that object.  An incremental encoder of a codec with a byte-order mark emits the mark once in its lifetime: made in
    __init__, the second transmission of the payload is two bytes short of the first (and of its declared Content-Length)."""
    rule = "C02.replay.codec"
    mod = repo.module("aiohttp/payload.py")
    n_attrs = 0
    for ci in mod.classes.values():
        if not any("_set_or_restore_start_position" in c.methods for c in repo.mro(ci)):
            continue
        stores = {}
        for name, fn in ci.methods.items():
            for st in ast.walk(fn.node):
                if isinstance(st, ast.Assign) and len(st.targets) == 1 and isinstance(st.targets[0], ast.Attribute) and norm.raw(st.targets[0].value) == "self":
                    if any(isinstance(c, ast.Call) and any(k in norm.raw(c.func) for k in _STATEFUL) for c in ast.walk(st.value)):
                        stores.setdefault(st.targets[0].attr, []).append((fn, st))
        for attr, sites in stores.items():
            n_attrs += 1
            restorers = {name: fn for name, fn in ci.methods.items() if M.contains(fn.node, "self._set_or_restore_start_position()")}
            def starts_pass(fn, depth=0):
                if fn.name in restorers:
                    return True
                callers = [f for f in ci.methods.values() if f is not fn and any(norm.raw(c.func) == f"self.{fn.name}" for c in prog.calls_in(f.node))]
                return bool(callers) and depth < 2 and all(starts_pass(f, depth + 1) for f in callers)
            bad = [(fn, st) for fn, st in sites if not starts_pass(fn)]
            for fn, st in bad:
                chk.violation(rule, st, K.short(st), f"self.{attr} = <new codec object> in the method that restores the start position ({', '.join(sorted(restorers)) or 'none'})",
                              f"{ci.name} can be transmitted again (redirect, retry: the start position of the stream is restored) but the stateful codec in self.{attr} is made once in {fn.name}(): an incremental encoder writes its byte-order mark (utf-16, utf-32, utf-8-sig) only on the first call of its lifetime, so the second transmission of the same payload is shorter than the first and than the declared Content-Length")
            # in every restorer that uses the codec, the replacement lies on every path between the restore and the use
            for name, fn in restorers.items():
                g = cfg_of(fn.node)
                uses = [n for n in g.nodes if n.in_finally_copy is None and isinstance(getattr(n, "ast", None), ast.AST) and n.kind in ("stmt", "test") and any(norm.raw(c.func).startswith(f"self.{attr}.") for c in K.node_calls(n))]
                if not uses:
                    continue
                rest = K.nodes_matching(fn, "self._set_or_restore_start_position()")
                def fresh(n):
                    if n.kind != "stmt" or not isinstance(n.ast, ast.Assign):
                        return False
                    if any(st is n.ast for _f, st in sites):
                        return True
                    return any(norm.raw(c.func) == f"self.{h.name}" for c in K.node_calls(n) for h, _st in sites if h is not fn)
                pth = g.find_path(rest, lambda n: n in uses, fresh, EXPLICIT)
                if pth is None:
                    chk.ok(rule, uses[0].ast, f"{ci.name}.{name}(): self.{attr} is replaced on every path from the restored start position to its use")
                else:
                    chk.violation(rule, uses[0].ast, K.short(uses[0].ast), f"self.{attr} = <new codec object> between _set_or_restore_start_position() and the use",
                                  f"{ci.name}.{name}() starts a new pass over the stream but can reach self.{attr} without replacing it: codec state (a byte-order mark already written, buffered surrogate halves) of the previous transmission leaks into this one", path=g.fmt_path(pth))
    chk.expect_count(rule, n_attrs, 1, "stateful codec attributes of replayable payload classes")


def hunt5_rules(chk, repo):
    """Rules written after the fifth defect hunt (F316, F320-F322): who owns the request payload, and when it may be sent again."""
    CL, DG, PL = "aiohttp/client.py", "aiohttp/client_middleware_digest_auth.py", "aiohttp/payload.py"
    rq = repo.func(CL, "ClientSession._request")
    # ---- C02.body.owner: the payload is closed when nobody sends it any more -----------------------------------------------------------------------------------
    loops = [l for l in ast.walk(rq.node) if isinstance(l, ast.While)]
    end = max((getattr(l, "end_lineno", l.lineno) for l in loops), default=0)
    late = [c for c in prog.calls_in(rq.node) if norm.raw(c.func) == "req._body.close" and c.lineno > end and not list(prog.enclosing(c, (ast.ExceptHandler,)))]
    if not late:
        chk.analysis_error("C02.body.owner: the close of the request payload after the redirect loop was not found in ClientSession._request")
    for c in late:
        u = list(PC.units(PC.pc(K.stmt_of(c), raw=True)))
        defs = norm.fn_defs(rq.node)
        def idle_writer(l):
            if not l.pos:
                return False
            t = l.text
            if t in ("req._writer is None", "req._writer_task is None"):
                return True
            if t.endswith(" is None") and t[:-8].isidentifier():
                return any(v is not None and norm.raw(v) in ("req._writer", "req._writer_task") for _d, v in defs.defs.get(t[:-8], []))
            return False
        if any(idle_writer(l) for l in u):
            chk.ok("C02.body.owner", c, "_request(): the payload is closed at once only when no writer task is running; otherwise the writer's completion closes it")
        else:
            chk.violation("C02.body.owner", c, K.short(c), "if req._writer is None: await req._body.close()  else: close it from the writer's done-callback",
                          "the payload is closed as soon as the response head arrives, while _write_bytes() may still be uploading it: `session.post(url, data=open(path, 'rb'))` with a 20 MB file against an echo handler (prepare() first, then reads the body) has its file closed under the writer after 260 KB - the rest is never sent, the server waits for the body, the client for the response; the same data as BytesIO round-trips")
    # ---- C02.upload.fail: a body that fails after the response head was taken is reported to whoever reads the response ---------------------------------------------
    wb = repo.func(REQ, "ClientRequest._write_bytes")
    nh = 0
    for t in [t for t in ast.walk(wb.node) if isinstance(t, ast.Try)]:
        for h in t.handlers:
            ty = PC.handler_types(h)
            if not (set(ty) & {"OSError", "Exception"}) or not M.contains(h, "set_exception(protocol, ...)"):
                continue
            nh += 1
            fails_body = any(isinstance(c, ast.Call) and (norm.raw(c.func) == "self._fail_response_body" or (norm.raw(c.func) == "set_exception" and c.args and "_payload" in norm.raw(c.args[0]))) for c in ast.walk(h))
            if fails_body:
                chk.ok("C02.upload.fail", h, f"_write_bytes(): `except {'/'.join(ty)}` fails the response body that is being read as well, and ends the connection")
            else:
                chk.violation("C02.upload.fail", h, f"except {'/'.join(ty)}", "self._fail_response_body(conn, exc, cause)  next to set_exception(protocol, ...)",
                              "set_exception(protocol, ...) only fails the queue of response heads; once the head was taken nobody looks at it again: an async-generator body that raises 0.3 s into the upload, against a handler that has sent its head already, never fails resp.read() - the connection stays open and both sides hang until the total timeout")
    chk.expect_count("C02.upload.fail", nh, 2, "handlers of _write_bytes() that report a failed upload")
    fb = repo.func_opt(REQ, "ClientRequest._fail_response_body")
    if fb is not None:
        if M.contains(fb.node, "conn.close()") and any(norm.raw(c.func) == "set_exception" for c in prog.calls_in(fb.node)):
            chk.ok("C02.upload.fail", fb, "_fail_response_body(): the exception is set on the unfinished body and the connection is closed (the peer does not wait for the rest of the request)")
        else:
            chk.violation("C02.upload.fail", fb, "_fail_response_body", "set_exception(body, ...); conn.close()", "the failed upload is not reported to the reader of the response body, or the connection stays open")
    # ---- C02.resend.quiesce: a payload is sent again only when the writer of the previous attempt has come to rest --------------------------------------------------
    # The writer task of an attempt that was answered early (307/308, 401) is cancelled; its executor read cannot be interrupted and goes on
    # moving the file position under the next attempt.  Both re-send sites wait for the old writer; the executor read is waited for on cancel.
    sites = []
    g = cfg_of(rq.node)
    red_rel = [n for n in g.nodes if n.in_finally_copy is None and n.kind == "stmt" and K.node_has(n, "resp.release()") and list(prog.enclosing(n.ast, (ast.While,)))]
    conts = [n for n in g.nodes if n.kind == "stmt" and isinstance(n.ast, ast.Continue)]
    quiet = [n for n in g.nodes if n.kind == "stmt" and isinstance(getattr(n, "ast", None), ast.AST) and K.node_has(n, "await req._close()")]
    red_rel = sorted(red_rel, key=lambda n: n.ast.lineno)[:1]  # the release that ends the answered attempt (a second one precedes `continue`)
    sites.append(("ClientSession._request (redirect)", g, red_rel, conts, quiet))
    dc = repo.func(DG, "DigestAuthMiddleware.__call__")
    gd = cfg_of(dc.node)
    d_rel = [n for n in gd.nodes if n.kind == "stmt" and K.node_has(n, "response.release()")]
    d_next = [n for n in gd.nodes if n.in_finally_copy is None and n.kind == "stmt" and K.node_has(n, "await handler(request)") and list(prog.enclosing(n.ast, (ast.For, ast.While)))]
    d_quiet = [n for n in gd.nodes if n.kind == "stmt" and isinstance(getattr(n, "ast", None), ast.AST) and K.node_has(n, "await request._close()")]
    sites.append(("DigestAuthMiddleware.__call__ (retry)", gd, d_rel, d_next, d_quiet))
    for what, gg, starts, targets, via in sites:
        if not starts or not targets:
            chk.analysis_error(f"C02.resend.quiesce: release / re-send statements not found in {what}")
            continue
        p_ = gg.find_path(starts, lambda n: n in targets, lambda n: n in via, EXPLICIT)
        if p_ is None and via:
            chk.ok("C02.resend.quiesce", via[0].ast, f"{what}: the writer of the answered attempt is awaited (req._close()) before the same payload is sent again")
        else:
            chk.violation("C02.resend.quiesce", starts[0].ast, K.short(starts[0].ast), "await req._close()  after the release, before the next attempt",
                          f"{what} re-sends the payload while the cancelled writer of the first attempt may still be inside an executor read: a file upload answered early by 307 is sent again with the stale read running between the second attempt's seek(0) and its read - /second receives 537856 of 800000 bytes starting in the middle and answers 200 (with a Content-Length the request hangs)", path=gg.fmt_path(p_) if p_ else None)
    iop = repo.cls(PL, "IOBasePayload")
    ex = [(name, c) for name, fn in iop.methods.items() for c in prog.calls_in(fn.node) if isinstance(c.func, ast.Attribute) and c.func.attr == "run_in_executor" and name in ("write_with_length", "_finish_read", "write")]
    for name, c in ex:
        fn = iop.methods[name]
        shielded = any(norm.raw(x.func) == "asyncio.shield" for x in prog.calls_in(fn.node))
        waits = any(any(t in ("asyncio.CancelledError", "BaseException") for t in PC.handler_types(h)) and any(isinstance(a, ast.Await) for a in ast.walk(h)) for t_ in ast.walk(fn.node) if isinstance(t_, ast.Try) for h in t_.handlers)
        if shielded and waits:
            chk.ok("C02.resend.quiesce", c, f"IOBasePayload.{name}(): the executor read is shielded and, when the writer is cancelled, waited for before the cancellation goes on")
        else:
            chk.violation("C02.resend.quiesce", c, K.short(c), "job = loop.run_in_executor(...); try: await asyncio.shield(job) except CancelledError: await asyncio.wait((job,)); raise",
                          f"IOBasePayload.{name}() abandons its executor read when the writer task is cancelled: the read goes on in its thread and moves the file position under whoever sends the payload next")
    chk.expect_count("C02.resend.quiesce", len(ex), 1, "executor reads of IOBasePayload's write path")
    # ---- C02.retry.consumed: a request whose body cannot be replayed is not sent a second time -----------------------------------------------------------------------
    tests = [n for n in gd.nodes if n.kind == "test" and ".consumed" in norm.raw(n.ast)]
    if d_next:
        loopn = next((l for l in prog.enclosing(d_next[0].ast, (ast.For,))), None)
        lv = {x.id for x in ast.walk(loopn.target) if isinstance(x, ast.Name)} if loopn is not None else set()
        vals = K.repeating_values(loopn) if loopn is not None else None
        p3 = None
        for v in (vals if vals is not None else [None]):
            edge = K.iteration_edges(loopn, v) if v is not None else (lambda a, b, k: False)
            p3 = p3 or K.find_path_edges(gd, d_next, lambda n: n in d_next, lambda n: n in tests, edge, EXPLICIT)
        if tests and p3 is None:
            chk.ok("C02.retry.consumed", tests[0].ast, "DigestAuthMiddleware: the retry is attempted only when the request body has not been consumed (the 401 is returned otherwise)")
        else:
            chk.violation("C02.retry.consumed", d_next[0].ast, K.short(d_next[0].ast), "if request.body.consumed: break   before the retry",
                          "`POST data=<async generator>` through DigestAuthMiddleware against a qop=auth challenge: the generator was consumed by the unauthenticated attempt, the authenticated retry goes out chunked with only the terminator - the handler sees ('authenticated', 0 bytes) and answers 200, no error on either side (the 307 path raises ClientPayloadError in the same situation)", path=gd.fmt_path(p3) if p3 else None)


def hunt4_rules(chk, repo):
    """Rules written after the fourth defect hunt (F270, F271)."""
    # ---- C02.hdrcodec: a header value that was received can be sent again: the serialisers encode with the codec the parsers decode with -------------
    ph = repo.func(HP, "HeadersParser.parse_headers") if "HeadersParser.parse_headers" in repo.module(HP).functions else None
    decs = [c for c in prog.calls_in(ph.node) if isinstance(c.func, ast.Attribute) and c.func.attr == "decode" and norm.raw(c.func.value) == "bvalue"] if ph is not None else []
    if not decs:
        chk.analysis_error("C02.hdrcodec: the decoding of field values in HeadersParser.parse_headers was not found")
    else:
        want = _codec(decs[0])
        sites = [("aiohttp/http_writer.py", "_py_serialize_headers", "the message head"), ("aiohttp/payload.py", "Payload._binary_headers", "the headers of a multipart part")]
        for rel, q, what in sites:
            fn = repo.func(rel, q)
            encs = [c for c, _b in K.exprs(fn, "$S.encode(...)") if isinstance(K.stmt_of(c), (ast.Return, ast.Assign))]
            for c in encs:
                got = _codec(c)
                if got == want:
                    chk.ok("C02.hdrcodec", c, f"{q}: {what} is encoded with {got[0]}/{got[1]}, the inverse of the parsers' decoding")
                else:
                    chk.violation("C02.hdrcodec", c, K.short(c, 60), f".encode({want[0]!r}, {want[1]!r})",
                                  f"{q} encodes {what} with {got[0]}/{got[1]} while the parsers decode field values with {want[0]}/{want[1]}: a received value with an obs-text byte (`filename=\"caf\\xe9.txt\"`, arriving as a lone surrogate) cannot be sent again - a handler that copies it into a response header produces a 500, forwarding it with session.get(headers=...) raises a bare UnicodeEncodeError")
    # ---- C02.bodycharset: a str request body is encoded in the charset the request announces -----------------------------------------------------------------
    ub = repo.func(REQ, "ClientRequest._update_body_from_data")
    gets = [c for c in prog.calls_in(ub.node) if norm.raw(c.func).endswith("PAYLOAD_REGISTRY.get")]
    if not gets:
        chk.analysis_error("C02.bodycharset: PAYLOAD_REGISTRY.get(...) not found in ClientRequest._update_body_from_data")
    for c in gets:
        direct = any(k.arg == "content_type" for k in c.keywords)
        splat = [k.value for k in c.keywords if k.arg is None]
        via = any(isinstance(x, ast.Constant) and x.value == "content_type" for sv in splat for d_, v in norm.fn_defs(ub.node).defs.get(norm.raw(sv), []) for x in ast.walk(d_)) or any(
            isinstance(a, ast.Assign) and isinstance(a.targets[0], ast.Subscript) and norm.raw(a.targets[0].value) in {norm.raw(sv) for sv in splat} and isinstance(a.targets[0].slice, ast.Constant) and a.targets[0].slice.value == "content_type" for a in ast.walk(ub.node))
        if direct or via:
            chk.ok("C02.bodycharset", c, "the payload built for the body gets the request's own Content-Type: a str is encoded with the charset it names")
        else:
            chk.violation("C02.bodycharset", c, K.short(c, 70), "content_type=self.headers[hdrs.CONTENT_TYPE]",
                          "`data='café'` with `Content-Type: text/plain; charset=latin-1` is sent as UTF-8 bytes under a header that says latin-1 (the documentation says the charset of Content-Type is used): the server decodes mojibake, or answers 415 for utf-16")


def hunt3_rules(chk, repo):
    """Rules written after the third defect hunt (F168, F169)."""
    # ---- C02.connhdr.nokeepalive: a server that keeps no idle connection (keepalive_timeout 0) does not announce a persistent one -------
    # start() arms the idle timer at loop.time() + keepalive_timeout: with 0 the connection is closed in the next loop iteration, so the
    # request has to be built from a message that says should_close (request.keep_alive False -> `Connection: close` / no keep-alive token).
    st = repo.func(WPROTO, "RequestHandler.start")
    loop = next((w for w in ast.walk(st.node) if isinstance(w, ast.While)), None)
    arm = [c for c, _b in K.exprs(st, "loop.time() + keepalive_timeout")] + [c for c, _b in K.exprs(st, "$L.time() + self._keepalive_timeout")]
    fac = [c for c, _b in K.exprs(st, "self._request_factory($M, ...)")]
    if loop is None or not arm or not fac:
        chk.analysis_error("C02.connhdr.nokeepalive: start() loop / keep-alive timer / request factory not found")
    else:
        marg = norm.raw(fac[0].args[0])
        tname = norm.raw(arm[0].right)
        marks = [a for a in ast.walk(loop) if isinstance(a, ast.Assign) and norm.raw(a.targets[0]) == marg and M.match(M.compile_pat("$M._replace(should_close=True)"), a.value) is not None
                 and a.lineno < fac[0].lineno]
        good = None
        for a in marks:
            par = getattr(a, "parent", None)
            if not isinstance(par, ast.If) or getattr(par, "parent", None) is not loop or a not in par.body:
                continue
            try:
                vals = [Evaluator({tname: v, "self._keepalive_timeout": v, "keepalive_timeout": v, marg + ".should_close": False}).ev(norm.subst(par.test, par)) for v in (0, 0.0)]
            except AnalysisError:
                continue
            if all(vals):
                good = par
        if good is not None:
            chk.ok("C02.connhdr.nokeepalive", good, f"start(): with a zero {tname} the request is built from message._replace(should_close=True): the response says close, as the loop then does")
        else:
            chk.violation("C02.connhdr.nokeepalive", st, "close_time = loop.time() + keepalive_timeout", f"if not {tname}: {marg} = {marg}._replace(should_close=True)",
                          "with keepalive_timeout=0 the idle timer fires at once and the connection is closed while the response announced a persistent one (no Connection: close): the client pools a dead connection and its next request fails")
    # ---- C02.file.chunked: FileResponse declares a Content-Length only when it is not chunked ----------------------------------------
    fr = repo.cls("aiohttp/web_fileresponse.py", "FileResponse")
    n = 0
    for name, m in fr.methods.items():
        for a in ast.walk(m.node):
            if isinstance(a, ast.Assign) and norm.raw(a.targets[0]) == "self.content_length" and norm.raw(a.value) != "None":
                n += 1
                if PC.has_lit(PC.pc(a), "self._chunked", False) is not None:
                    chk.ok("C02.file.chunked", a, f"FileResponse.{name}: content_length is set only when chunked encoding is off")
                else:
                    chk.violation("C02.file.chunked", a, K.short(a), "if not self._chunked:", "a FileResponse with enable_chunked_encoding() sets content_length: the setter raises RuntimeError, prepare() fails and no response is sent "
                                  "(or, with a plain header write, both Content-Length and Transfer-Encoding: chunked are announced)")
    chk.expect_count("C02.file.chunked", n, 1, "content_length assignments in FileResponse")
    sf = fr.methods["_sendfile"]
    raw = [c for c in prog.calls_in(sf.node) if isinstance(c.func, ast.Attribute) and c.func.attr == "sendfile"]
    for c in raw:
        lits = {str(l) for l in PC.units(PC.pc(c))}
        miss = [w for w in ("!(self._chunked)", "!(self.compression)") if w not in lits]
        if not miss:
            chk.ok("C02.file.chunked", c, "sendfile() (raw file bytes on the socket, past the writer) only when the writer frames nothing: not chunked, not compressed")
        else:
            chk.violation("C02.file.chunked", c, K.short(c), " and ".join(miss), "sendfile() puts the raw file bytes on the socket although the head announced a framed body (chunk sizes / compressed coding are skipped)")
    chk.expect_count("C02.file.chunked", len(raw), 2, "sendfile() calls in FileResponse._sendfile")


def connhdr(chk, repo):
    """Sender Connection header x receiver close decision == not keep_alive, both directions."""
    ph = repo.func(WRESP, "StreamResponse._prepare_headers")
    snd = [i for i in ph.node.body if isinstance(i, ast.If) and norm.raw(i.test) == "hdrs.CONNECTION not in headers"]
    rp = repo.func(HP, "HttpResponseParser.parse_message")
    rcv = [i for i in ast.walk(rp.node) if isinstance(i, ast.If) and norm.raw(i.test) == "close is None"]
    hpz = repo.func(HP, "HttpParser.parse_headers")
    tok = [i for i in ast.walk(hpz.node) if isinstance(i, ast.If) and norm.raw(i.test) == "'close' in conn_tokens"]
    if not snd or not rcv or not tok:
        chk.analysis_error("C02.connhdr: Connection header sender / receiver fragments not found")
        return

    def receiver(frag, version, header, extra):
        env = {"conn_tokens": {header} if header else set(), "close_conn": None}
        Evaluator(env).run([tok[0]]) if header else None
        e2 = Evaluator(env)
        if header:
            e2.run([tok[0]])
        close = e2.env.get("close_conn")
        env2 = {"close": close, "version_o": version, "HttpVersion10": V10, "HttpVersion11": V11, "self.response_with_body": True, **extra}
        e3 = Evaluator(env2)
        e3.run([frag])
        return e3.env["close"]

    bad = 0
    for ver, ka, rka in itertools.product((V10, V11), (False, True), (False, True)):
        hd = Dict()
        # (what the request asked for is an input of the clause since the fifth hunt: an HTTP/1.0 keep-alive that is declined is told so)
        env = {"headers": hd, "hdrs.CONNECTION": "Connection", "keep_alive": ka, "version": ver, "HttpVersion10": V10, "HttpVersion11": V11, "request.keep_alive": rka}
        Evaluator(env).run([snd[0]])
        h = hd.get("Connection")
        close = receiver(rcv[0], ver, h, {"status_i": 200, "headers": Dict({"Content-Length": "1"}), "hdrs.CONTENT_LENGTH": "Content-Length", "hdrs.TRANSFER_ENCODING": "Transfer-Encoding"})
        if bool(close) != (not ka):
            bad += 1
            chk.violation("C02.connhdr", snd[0], "Connection header of the response", f"HTTP/{ver[0]}.{ver[1]} keep_alive={ka}: header={h!r} -> client decides close={close}",
                          "server and client reach different decisions on whether the connection stays open (one side reuses a connection the other closes, or waits on one that stays open)")
    if not bad:
        chk.ok("C02.connhdr", snd[0], "response direction: (version, keep_alive, what the request asked for) -> Connection header -> client close decision == not keep_alive on all 8 rows")
    # a response to HEAD carries no body and usually no framing header: the client must not take it for a close-delimited body while the server
    # keeps the connection alive (both ends have to agree on what happens to the connection)
    try:
        hd = Dict()
        Evaluator({"headers": hd, "hdrs.CONNECTION": "Connection", "keep_alive": True, "version": V11, "HttpVersion10": V10, "HttpVersion11": V11, "request.keep_alive": True}).run([snd[0]])
        close = receiver(rcv[0], V11, hd.get("Connection"), {"status_i": 200, "headers": Dict(), "hdrs.CONTENT_LENGTH": "Content-Length", "hdrs.TRANSFER_ENCODING": "Transfer-Encoding", "self.response_with_body": False})
        if close:
            chk.violation("C02.connhdr", rcv[0], "close decision for a response without framing headers", "close = False when the response cannot have a body (HEAD)",
                          "a 200 to HEAD without Content-Length / Transfer-Encoding (web.Response(), StreamResponse) is kept alive by the server but taken for a close-delimited body by the client, which drops the connection after every such HEAD")
        else:
            chk.ok("C02.connhdr", rcv[0], "a response to HEAD without framing headers leaves the connection open on both ends")
    except Exception as e:  # the decision table could not be evaluated
        chk.analysis_error(f"C02.connhdr: HEAD row: {e}")
    sn = repo.func(REQ, "ClientRequestBase._send")
    snd2 = [i for i in ast.walk(sn.node) if isinstance(i, ast.If) and norm.raw(i.test) == "hdrs.CONNECTION not in self.headers"]
    rq = repo.func(HP, "HttpRequestParser.parse_message")
    rcv2 = [i for i in ast.walk(rq.node) if isinstance(i, ast.If) and norm.raw(i.test) == "close is None"]
    if snd2 and rcv2:
        bad2 = 0
        for ver, fc in itertools.product((V10, V11), (False, True)):
            hd = Dict()
            env = {"self.headers": hd, "hdrs.CONNECTION": "Connection", "conn._connector.force_close": fc, "v": ver, "HttpVersion10": V10, "HttpVersion11": V11}
            Evaluator(env).run([snd2[0]])
            h = hd.get("Connection")
            close = receiver(rcv2[0], ver, h, {})
            if bool(close) != fc:
                bad2 += 1
                chk.violation("C02.connhdr", snd2[0], "Connection header of the request", f"HTTP/{ver[0]}.{ver[1]} force_close={fc}: header={h!r} -> server decides close={close}",
                              "client and server disagree on keeping the connection open after the request")
        if not bad2:
            chk.ok("C02.connhdr", snd2[0], "request direction: (version, force_close) -> Connection header -> server close decision == force_close on all 4 rows")
    else:
        chk.analysis_error("C02.connhdr: request-direction fragments not found")


def flushonce(chk, repo, rule="C02.flushonce"):
    sw = repo.cls(HW, "StreamWriter")
    n = 0
    for name, m in sw.methods.items():
        for s in [s for s in ast.walk(m.node) if isinstance(s, ast.Assign) and norm.raw(s) == "headers_buf = self._headers_buf"]:
            n += 1
            blk = PC._block_of(s)
            texts = [norm.raw(x) for x in blk]
            marks = "self._headers_written = True" in texts and "self._headers_buf = None" in texts
            first_emit = min((x.lineno for x in blk if M.contains(x, "self._write($X)") or M.contains(x, "self._writelines($X)")), default=10**9)
            marks_first = all(x.lineno < first_emit for x in blk if norm.raw(x) in ("self._headers_written = True", "self._headers_buf = None"))
            cl = PC.pc(s, raw=True)
            guarded = PC.has_lit(cl, "self._headers_buf", True) is not None and PC.has_lit(cl, "self._headers_written", False) is not None
            if not guarded:
                # helper called only under the guard
                sites = prog.call_sites(repo, m, [HW])
                guarded = bool(sites) and all(PC.has_lit(PC.pc(c, raw=True), "self._headers_buf", True) is not None and PC.has_lit(PC.pc(c, raw=True), "self._headers_written", False) is not None for c in sites)
            if marks and marks_first and guarded:
                chk.ok(rule, s, f"{name}: buffered headers are taken under `_headers_buf and not _headers_written`, marked written and cleared before the write")
            else:
                chk.violation(rule, s, K.short(s), f"guard={guarded} marks={marks} before-write={marks_first}", f"{name}: the buffered header block can be written twice or never")
    chk.expect_count(rule, n, 4, "header flush sites")
