"""C15 Static file serving stays inside its root (DESIGN 5/C15): structural conditions; range arithmetic is not decided."""
from __future__ import annotations

import ast
import re

from sa import match as M, norm, pc as PC, prog, regexlang as R, rulekit as K
from sa.cfg import EXPLICIT, cfg_of
from sa.loader import AnalysisError

MOD = "aiohttp/web_urldispatcher.py"
FR = "aiohttp/web_fileresponse.py"
WR = "aiohttp/web_request.py"


def run(chk):
    repo = chk.repo
    chk.explanation = (
        "Decided on web_urldispatcher.py / web_fileresponse.py / web_request.py: every path to a FileResponse or a directory listing passes "
        "Path.relative_to(root) applied to the *resolved* path (or, in follow-symlink mode, to the normpath of the joined path, before resolving), "
        "inside a try whose ValueError handler answers 404; no string-prefix test replaces it; FileResponse is constructed for static routes only "
        "there; absolute filenames are refused before joining; the route prefix test reads the normalised path; listings only under show_index; a "
        "path is returned by the file lookup only under S_ISREG of a stat of that same path, the pre-compressed sibling is lstat()ed; Range numbers "
        "are lexically gated."
    )
    chk.not_decided = "range / suffix / If-Range arithmetic and 206/416 consistency (integer reasoning: solver family); actual file-system semantics of resolve()."
    chk.explanation += " After the defect hunt: entity-tags in If-Range are compared; `bytes=-0` selects nothing; the index of a directory behind a symlink is built from the unresolved path; OSError while examining a path is a 404."
    chk.explanation += " Second hunt: a 206 slice is never content-coded on the fly; the index page is encoded leniently. Known: an If-Range date is compared with <= instead of == (F103)."
    rp = repo.func(MOD, "StaticResource._resolve_path_to_response")
    g = cfg_of(rp.node)
    # ---- sandbox -------------------------------------------------------------------------------------------
    sinks = [n for n in g.nodes if K.node_has(n, "FileResponse($P, ...)") or K.node_has(n, "self._directory_as_html($P)")]
    if len(sinks) < 2:
        chk.analysis_error(f"C15.sandbox: {len(sinks)} sinks (FileResponse / directory listing) found, 2 confirmed")
    checks = [n for n in g.nodes if K.node_has(n, "$P.relative_to(self._directory)")]
    path = g.find_path([g.entry], lambda n: n in sinks, lambda n: n in checks, EXPLICIT)
    if not checks:
        chk.violation("C15.sandbox", rp, "file_path.relative_to(self._directory)", "containment check",
                      "no Path.relative_to(root) containment check: a string-prefix test accepts siblings whose name starts with the root's name (root `www` vs `www-data`)")
    elif path is not None:
        chk.violation("C15.sandbox", sinks[0].ast, K.short(sinks[0].ast), "relative_to(self._directory) on every path", "a response can be produced without the containment check", path=g.fmt_path(path))
    else:
        chk.ok("C15.sandbox", sinks[0].ast, f"every path to the {len(sinks)} response sites passes a relative_to(self._directory) check")
    # served path = resolved path, and the check applies to the right object in each mode
    for s in sinks:
        for call, b in list(K.node_find(s, "FileResponse($P, ...)")) + list(K.node_find(s, "self._directory_as_html($P)")):
            p = b["P"]
            if not isinstance(p, ast.Name):
                chk.violation("C15.sandbox", call, K.short(call), "a local bound to <path>.resolve()", "the served path is not the resolved, checked path")
                continue
            ds = norm.fn_defs(rp.node).defs.get(p.id, [])
            # the directory listing may be given an alias of a path that was checked against the root in the same block (in follow-symlink
            # mode the normalised, unresolved path: names are listed relative to the root, the target of a symlink may lie outside it)
            alias = [(d, v) for d, v in ds if isinstance(v, ast.Name)]
            if alias and len(alias) == len(ds) and "_directory_as_html" in norm.raw(call.func):
                bad_alias = []
                for d, v in alias:
                    blk = PC._block_of(d)
                    prior = blk[: blk.index(d)] if blk and d in blk else []
                    if not any(M.contains(x, f"{v.id}.relative_to(self._directory)") for x in prior):
                        bad_alias.append((d, v))
                if not bad_alias:
                    chk.ok("C15.sandbox", call, f"`{K.short(call, 40)}` lists `{p.id}`, in every branch an alias of a path checked against the root just before")
                else:
                    chk.violation("C15.sandbox", bad_alias[0][0], K.short(bad_alias[0][0]), f"{bad_alias[0][1].id}.relative_to(self._directory) before the alias", "the listed directory path was not checked against the root")
                continue
            if ds and all(v is not None and M.match(M.compile_pat("$X.resolve()"), v) is not None for _d, v in ds):
                chk.ok("C15.sandbox", call, f"`{K.short(call, 40)}` serves `{p.id}`, every definition of which is a .resolve()d path")
            else:
                chk.violation("C15.sandbox", call, K.short(call), f"{p.id} = <path>.resolve() in every branch", "the served path is not the symlink-resolved path that was checked")
            for d, v in ds:
                cl = PC.pc(d)
                follow = PC.has_lit(cl, "self._break_symlink_sandbox", True) is not None
                src = norm.raw(v.func.value) if isinstance(v, ast.Call) and isinstance(v.func, ast.Attribute) else ""
                blk = PC._block_of(d)
                if follow:
                    prior = blk[: blk.index(d)]
                    okf = bool(src) and src.isidentifier() and any(M.contains(x, f"{src}.relative_to(self._directory)") for x in prior)
                    sd = norm.fn_defs(rp.node).defs.get(src, [])
                    normed = bool(sd) and all(v2 is not None and "os.path.normpath(" in norm.raw(v2) for _d2, v2 in sd)
                    if okf and normed:
                        chk.ok("C15.sandbox", d, "follow-symlink mode: the normpath()ed (dot segments removed) joined path is checked against the root before resolving")
                    else:
                        chk.violation("C15.sandbox", d, K.short(d), f"{src} = Path(os.path.normpath(...)); {src}.relative_to(self._directory) before resolve()",
                                      "follow-symlink mode: dot segments are not removed / not checked before the path is resolved: `..` escapes the root")
                else:
                    later = blk[blk.index(d) + 1:]
                    if any(M.contains(x, f"{p.id}.relative_to(self._directory)") for x in later):
                        chk.ok("C15.sandbox", d, "default mode: the resolved path itself is checked against the root (symlinks cannot leave it)")
                    else:
                        chk.violation("C15.sandbox", d, K.short(d), f"{p.id}.relative_to(self._directory) after resolve()",
                                      "default mode: the containment check is not applied to the resolved path: a symlink inside the root can point outside")
    for c in checks:
        call = next(iter(K.node_find(c, "$P.relative_to(self._directory)")))[0]
        hs = [h for _t, h in K.enclosing_try_handlers(call)]
        if any("ValueError" in " ".join(PC.handler_types(h)) and any(cls == "HTTPNotFound" for _n, cls in K.raises_in(h)) for h in hs):
            chk.ok("C15.sandbox", call, "a path outside the root (ValueError from relative_to) is answered with 404")
        else:
            chk.violation("C15.sandbox", call, K.short(call), "except ValueError: raise HTTPNotFound()", "the containment failure is not turned into 404")
    # the directory the check uses is itself resolved at construction
    init = repo.func(MOD, "StaticResource.__init__")
    if "directory.resolve(" in norm.raw(init.node) or ".resolve(strict=True)" in norm.raw(init.node):
        chk.ok("C15.sandbox", init, "the configured root is resolved when the route is created")
    else:
        chk.violation("C15.sandbox", init, "directory = Path(directory).resolve(strict=True)", "", "the root is not resolved: relative_to compares against an unresolved path")
    # ---- single --------------------------------------------------------------------------------------------------
    sites = []
    for fn in repo.module(MOD).functions.values():
        for c in prog.calls_in(fn.node):
            if norm.raw(c.func) == "FileResponse":
                sites.append((fn.qualname, c))
    if {q for q, _c in sites} == {"StaticResource._resolve_path_to_response"}:
        chk.ok("C15.single", sites[0][1], "FileResponse is constructed for static routes only in _resolve_path_to_response")
    else:
        for q, c in sites:
            if q != "StaticResource._resolve_path_to_response":
                chk.violation("C15.single", c, K.short(c), f"construction in {q}", "a file response is built outside the sandbox check")
    # ---- absolute ------------------------------------------------------------------------------------------------------
    h = repo.func(MOD, "StaticResource._handle")
    rej = K.find_rejection(chk, "C15.absolute", h, [("Path($F).is_absolute()", True, "absolute / drive / UNC filename")], {"HTTPNotFound"}, "absolute filenames are refused", strict_extra=True, allowed_extra=[])
    j = K.exprs(h, "self._directory.joinpath(filename)")
    if rej is not None and j and rej.lineno < j[0][0].lineno and PC.has_lit(PC.pc(j[0][0]), "Path($F).is_absolute()", False) is not None:
        chk.ok("C15.absolute", j[0][0], "the join with the root happens only for a relative filename")
    elif rej is not None:
        chk.violation("C15.absolute", h, "self._directory.joinpath(filename)", "after the is_absolute() refusal", "an absolute filename replaces the root in joinpath()")
    fnm = norm.fn_defs(h.node).defs.get("filename", [])
    if len(fnm) == 1 and norm.raw(fnm[0][1]) == "request.match_info['filename']":
        chk.ok("C15.absolute", fnm[0][0], "the tested filename is the one taken from the match")
    # ---- prefix ------------------------------------------------------------------------------------------------------------
    rs = repo.func(MOD, "StaticResource.resolve")
    e = [r for r in ast.walk(rs.node) if isinstance(r, ast.Return) and "set()" in norm.raw(r)]
    npd = norm.fn_defs(rs.node).defs.get("norm_path", [])
    if e and npd and any(v is not None and norm.raw(v) == "os.path.normpath(path)" for _d, v in npd) and all(v is not None and "norm" in norm.raw(v) for _d, v in npd) and all("norm_path" in l.text for l in PC.units(PC.pc(e[0], raw=True))):
        chk.ok("C15.prefix", e[0], "the route prefix test reads the os.path.normpath()ed request path")
    else:
        chk.violation("C15.prefix", rs, "norm_path = os.path.normpath(path); if not norm_path.startswith(self._prefix2) ...", "", "the prefix test is applied to the un-normalised path (`/static/../x` matches the static route)")
    # ---- index ----------------------------------------------------------------------------------------------------------------
    di = K.exprs(rp, "self._directory_as_html($P)")
    if di:
        K.require_lits(chk, "C15.index", di[0][0], [("self._show_index", True, "listing enabled"), ("$P.is_dir()", True, "is a directory")], "directory listing only when enabled")
        forb = [n for n, c in K.raises_in(rp.node) if c == "HTTPForbidden" and PC.has_lit(PC.pc(n), "self._show_index", False) is not None]
        if forb:
            chk.ok("C15.index", forb[0], "a directory without show_index is answered 403")
        else:
            chk.violation("C15.index", rp, "else: raise HTTPForbidden()", "", "a directory request with listing disabled falls through to FileResponse")
    # ---- regular ------------------------------------------------------------------------------------------------------------------
    gf = repo.func(FR, "FileResponse._get_file_path_stat_encoding")
    rets = [r for r in ast.walk(gf.node) if isinstance(r, ast.Return)]
    nr = 0
    for r in rets:
        v = r.value.elts[0] if isinstance(r.value, ast.Tuple) else r.value
        if isinstance(v, ast.IfExp):
            pathn, cond = v.body, v.test
            okc = norm.raw(cond) == "S_ISREG(st.st_mode)" and isinstance(v.orelse, ast.Constant) and v.orelse.value is None
        else:
            pathn = v
            okc = PC.has_lit(PC.pc(r, raw=True), "S_ISREG(st.st_mode)", True) is not None
        # st comes from a stat of that same path: nearest preceding `st = X.(l)stat()`
        blk_stmts = [s for s in ast.walk(gf.node) if isinstance(s, ast.Assign) and norm.raw(s.targets[0]) == "st" and s.lineno < r.lineno]
        last = max(blk_stmts, key=lambda s: s.lineno) if blk_stmts else None
        b = M.match(M.compile_pat("$X.$M()"), last.value) if last is not None else None
        same = b is not None and norm.raw(b["X"]) == norm.raw(pathn) and b["M"] in ("stat", "lstat")
        nr += 1
        if okc and same:
            how = b["M"]
            chk.ok("C15.regular", r, f"`{norm.raw(pathn)}` is returned only under S_ISREG of its own {how}()")
            if norm.raw(pathn) == "compressed_path":
                if how == "lstat":
                    chk.ok("C15.regular", last, "the pre-compressed sibling is lstat()ed: a symlink next to the file is not followed")
                else:
                    chk.violation("C15.regular", last, K.short(last), "compressed_path.lstat()", "the pre-compressed sibling is stat()ed: a `.gz` symlink next to a served file leads outside the root")
        else:
            chk.violation("C15.regular", r, K.short(r), "S_ISREG(st.st_mode) with st = <that path>.stat()/lstat()", "a path is handed to the sender without a regular-file test on its own stat (devices, FIFOs, directories, or a different file)")
    chk.expect_count("C15.regular", nr, 2, "returns of _get_file_path_stat_encoding")
    mk = repo.func(FR, "FileResponse._make_response")
    na = [r for r in ast.walk(mk.node) if isinstance(r, ast.Return) and "NOT_ACCEPTABLE" in norm.raw(r)]
    if na and PC.has_lit(PC.pc(na[0]), "file_path", False) is not None and na[0].lineno < min((c.lineno for c, _b in K.exprs(mk, "file_path.open('rb')")), default=10**9):
        chk.ok("C15.regular", na[0], "a non-regular file is refused before anything is opened")
    else:
        chk.violation("C15.regular", mk, "if not file_path: return NOT_ACCEPTABLE", "before open()", "a non-regular file is opened")
    # ---- rangeguard: the satisfiability test judges the *normalised* offset (check-then-modify rule) ----
    from sa import dataflow as D
    from sa.cfg import cfg_of as _cfg

    po = repo.func(FR, "FileResponse._prepare_open_file")
    gp = _cfg(po.node)
    tests = [n for n in gp.nodes if n.kind == "test" and any(isinstance(c, ast.Compare) and {norm.raw(c.left), norm.raw(c.comparators[0])} == {"start", "file_size"} for c in ast.walk(n.ast))
             and any("HTTPRequestRangeNotSatisfiable" in norm.raw(s2) for s2 in (n.ast.parent.body if isinstance(getattr(n.ast, "parent", None), ast.If) else []))]
    if not tests:
        chk.violation("C15.rangeguard", po, "if start >= file_size: <416>", "unsatisfiable-range test on the start offset", "a start offset at or beyond the end of the file is not answered 416")
    for t in tests:
        ge = any(isinstance(c, ast.Compare) and isinstance(c.ops[0], (ast.GtE, ast.Gt)) and norm.raw(c.left) == "start" for c in ast.walk(t.ast))
        later = D.defs_reachable(gp, [(t, "F" if ge else "T")], "start")
        if later:
            for d in later:
                chk.violation("C15.rangeguard", d.ast, K.short(d.ast), "no redefinition of `start` after the `start >= file_size` test",
                              "the 416 test judges the raw parsed start, which is then rewritten (suffix ranges are negative before normalisation): `bytes=-N` on an empty file passes the test and is answered 206 with a malformed Content-Range")
        else:
            chk.ok("C15.rangeguard", t.ast, "the 416 test is applied to the final value of `start` (no redefinition between the test and the Content-Range / seek uses)")
    # ---- rangelex --------------------------------------------------------------------------------------------------------------------
    hr = repo.func(WR, "BaseRequest.http_range")
    fa = K.exprs(hr, "re.findall($P, rng, re.ASCII)")
    patx = norm.subst(fa[0][1]["P"], fa[0][0]) if fa else None  # the pattern, written in place or through a local
    ints = [c for c in prog.calls_in(hr.node) if isinstance(c.func, ast.Name) and c.func.id == "int"]
    if patx is not None and isinstance(patx, ast.Constant) and isinstance(patx.value, str) and len(ints) == 2:
        p = patx.value
        for gi in (1, 2):
            okg, w = R.subset(R.group_lang(p, re.ASCII, gi), R.lang("[0-9]*", 0, "fullmatch"))
            if not okg:
                chk.violation("C15.rangelex", fa[0][0], p, f"group {gi} admits {w!r}", "a Range bound can be something other than ASCII digits")
        for c in ints:
            arg = norm.raw(c.args[0])
            par = c.parent
            if isinstance(par, ast.IfExp) and norm.raw(par.test) == arg and par.body is c:
                chk.ok("C15.rangelex", c, f"int({arg}) only when the matched digit group is non-empty; groups are within [0-9]* (re.ASCII)")
            else:
                chk.violation("C15.rangelex", c, K.short(c), f"{arg} non-empty", "int() of an empty Range bound")
        # the whole header must match (anchors)
        full = R.lang(p, re.ASCII, "search")
        okf, w = R.subset(full, R.lang("bytes=[0-9]*-[0-9]*\n?", 0, "fullmatch"))
        if okf:
            chk.ok("C15.rangelex", fa[0][0], "the Range pattern is anchored at both ends: the whole header value is `bytes=<digits>-<digits>`")
        else:
            chk.violation("C15.rangelex", fa[0][0], p, f"admits {w!r}", "the Range pattern matches inside a longer value")
    else:
        chk.violation("C15.rangelex", hr, "re.findall(r'^bytes=(\\d*)-(\\d*)$', rng, re.ASCII)", "", "Range parsing is no longer lexically gated")
    conditional_rules(chk, repo)
    hunt3_rules(chk, repo)
    hunt4_rules(chk, repo)
    hunt5_rules(chk, repo)


def hunt5_rules(chk, repo):
    """Rules written after the fifth defect hunt (F287-F290)."""
    from sa.consteval import Folder
    from rules import C01
    FR = "aiohttp/web_fileresponse.py"
    folder = Folder(repo)
    # ---- C15.range.int (F287): the numbers of a Range header are converted where a ValueError means `not satisfiable` -----------------------------------
    K.int_sites(chk, "C15.range.int", repo, folder, [FR], {
        (FR, "_range_pos", "digits or '0'"): "at most 20 characters (the test of the same conditional expression) that the range-set pattern admitted as digits",
    }, "a position of a Range set is text of the peer (`bytes=<5000 digits>-,0-0` is 5 kB): the request is answered 500 with a traceback, and the verdict depends on the order of the members (`bytes=<big>-` alone is 416)",
                gate=C01.int_cannot_raise, min_sites=1)
    rp = repo.func_opt(FR, "_range_pos")
    if rp is not None:
        ints = [c for c in prog.calls_in(rp.node) if isinstance(c.func, ast.Name) and c.func.id == "int"]
        bounded = [c for c in ints if any(isinstance(p_, ast.IfExp) and any(x is c for x in ast.walk(p_.body)) and "len(" in norm.raw(p_.test) and "<" in norm.raw(p_.test) for p_ in ast.walk(rp.node))]
        if ints and len(bounded) == len(ints):
            chk.ok("C15.range.int", ints[0], "_range_pos(): int() only sees a digit string whose length the same expression has bounded")
        else:
            chk.violation("C15.range.int", rp, "int(digits)", "int(digits) if len(digits) <= 20 else <beyond any file>", "the listed conversion of _range_pos() is no longer under its length test: an over-long position raises ValueError (4300-digit limit) and the request is answered 500")
    # ---- C15.cond.status (F288): preconditions and Range apply to what would otherwise be a 2xx / 200 response ---------------------------------------------
    mk = repo.func(FR, "FileResponse._make_response")
    rets = [r for r in ast.walk(mk.node) if isinstance(r, ast.Return) and any(k in norm.raw(r) for k in ("NOT_MODIFIED", "PRE_CONDITION_FAILED"))]
    defs = norm.fn_defs(mk.node)
    def twoxx(lit):
        if not lit.pos:
            return False
        t = lit.text
        if "_status" in t and "200" in t and "300" in t:
            return True
        return t.isidentifier() and any(v is not None and "_status" in norm.raw(v) and "200" in norm.raw(v) for _d, v in defs.defs.get(t, []))
    nret = 0
    for r in rets:
        nret += 1
        if any(twoxx(l) for l in PC.units(PC.pc(r, raw=True))):
            chk.ok("C15.cond.status", r, f"`{K.short(r, 60)}`: the precondition is evaluated only for a 2xx status")
        else:
            chk.violation("C15.cond.status", r, K.short(r, 70), "evaluate = 200 <= self._status < 300 ... and evaluate",
                          "a precondition overrides the status the handler gave the FileResponse (RFC 9110 13.2.1: preconditions are ignored unless the response without them would be 2xx): `FileResponse('404.html', status=404)` is answered 304 to `If-None-Match: *` / a fresh If-Modified-Since - the browser keeps showing the deleted resource - and 412 to `If-Match`")
    chk.expect_count("C15.cond.status", nret, 4, "precondition verdicts of FileResponse._make_response")
    po = repo.func(FR, "FileResponse._prepare_open_file")
    on = [a for a in ast.walk(po.node) if isinstance(a, ast.Assign) and norm.raw(a.targets[0]) == "process_range" and not (isinstance(a.value, ast.Constant) and a.value.value is False)]
    nr = 0
    for a in on:
        nr += 1
        u = list(PC.units(PC.pc(a, raw=True)))
        if any((not l.pos and l.text in ("status != 200", "self._status != 200")) or (l.pos and l.text in ("status == 200", "self._status == 200", "process_range")) for l in u):
            chk.ok("C15.cond.status", a, f"`{K.short(a, 60)}`: Range is honoured only for a 200 status")
        else:
            chk.violation("C15.cond.status", a, K.short(a, 70), "if status != 200: process_range = False",
                          "Range is applied whatever the status of the response (RFC 9110 14.2: only to what would otherwise be 200): `FileResponse('404.html', status=404)` answers `Range: bytes=0-` with 206 and bytes of the error page")
    chk.expect_count("C15.cond.status.range", nr, 3, "places that may switch range processing on (or keep it on)")
    # ---- C15.coded.validator (F289): what is coded on the fly does not carry the file's ranges and strong validator --------------------------------------
    fcls = repo.cls(FR, "FileResponse")
    sets_ar = any("ACCEPT_RANGES" in norm.raw(a) for f in fcls.methods.values() for a in ast.walk(f.node) if isinstance(a, ast.Assign))
    dsc = fcls.methods.get("_do_start_compression")
    if not sets_ar:
        chk.ok("C15.coded.validator", fcls.node, "FileResponse does not advertise byte ranges")
    elif dsc is not None and M.contains(dsc.node, "self._headers.popall(hdrs.ACCEPT_RANGES, ...)") and any(isinstance(c, ast.keyword) and c.arg == "is_weak" and isinstance(c.value, ast.Constant) and c.value.value is True for c in ast.walk(dsc.node)):
        chk.ok("C15.coded.validator", dsc, "FileResponse._do_start_compression(): a coding applied on the fly removes Accept-Ranges and weakens the ETag (it is not the stored representation)")
    else:
        chk.violation("C15.coded.validator", fcls.node, "Accept-Ranges: bytes / ETag of the file", "FileResponse._do_start_compression(): drop Accept-Ranges, send the ETag weak when coding != identity",
                      "with enable_compression() the gzip-coded 200 carries the identity file's strong ETag and `Accept-Ranges: bytes`: a client that resumes with `Range: bytes=N-` and `If-Range: <that ETag>` gets 206 with identity[N:] and splices N gzip bytes with identity bytes - the result does not decode and no error is signalled")
    # ---- C15.path.value (F290): a path the OS refuses as a value is a missing file -----------------------------------------------------------------------
    pp = fcls.methods["prepare"]
    nhs = 0
    okh = 0
    for t in [t for t in ast.walk(pp.node) if isinstance(t, ast.Try)]:
        for h in t.handlers:
            ty = PC.handler_types(h)
            if "OSError" in ty and "PermissionError" not in ty:
                nhs += 1
                okh += "ValueError" in ty
    if nhs and okh == nhs:
        chk.ok("C15.path.value", pp, "FileResponse.prepare(): a ValueError of the path (embedded null byte) is answered like a missing file, 404")
    else:
        chk.violation("C15.path.value", pp, "except OSError:", "except (OSError, ValueError):",
                      "os.stat() refuses a path with an embedded null byte with ValueError, not OSError: `web.FileResponse(DIR / request.match_info['name'])` answers `GET /dl/a%00.txt` with 500 and a traceback, while a missing file, a 300-character name and the static route (which catches it itself) give 404")


def hunt4_rules(chk, repo):
    """Rules written after the fourth defect hunt (F266-F269)."""
    import re as _re
    from sa.consteval import Folder, NotConst, RegexConst
    UD = "aiohttp/web_urldispatcher.py"
    WRP = "aiohttp/web_response.py"
    folder = Folder(repo)
    po = repo.func(FR, "FileResponse._prepare_open_file")
    # ---- C15.rangeset: a syntactically valid set of ranges is not answered 416 (multipart/byteranges is not implemented: the header is ignored) --------
    guard = None
    for c in prog.calls_in(po.node):
        if isinstance(c.func, ast.Attribute) and c.func.attr in ("fullmatch", "match") and c.args and "range" in norm.text(c.args[0], c).lower():
            try:
                rx = folder.eval(repo.module(FR), c.func.value)
            except NotConst:
                continue
            if isinstance(rx, RegexConst):
                cre = _re.compile(rx.pattern, rx.flags)
                m = getattr(cre, c.func.attr)
                if all(m(x) for x in ("bytes=0-1,3-4", "bytes=0-0, -1", "bytes=5-,0-1")) and not any(m(x) for x in ("bytes=0-1", "bytes=-5", "blocks=0-10", "bytes=0-1,")):
                    guard = c
    offs = [a for a in ast.walk(po.node) if isinstance(a, ast.Assign) and norm.raw(a.targets[0]) == "process_range" and guard is not None and a.lineno > guard.lineno
            and any(id(guard) in {id(x) for x in ast.walk(i.test)} for i in prog.enclosing(a, (ast.If,)))]
    uses = [c for c in ast.walk(po.node) if isinstance(c, ast.Attribute) and c.attr == "http_range"]
    if guard is not None and offs and uses and offs[0].lineno < uses[0].lineno:
        chk.ok("C15.rangeset", guard, "a Range header listing several ranges switches range processing off (200 with the whole file) unless none of them is satisfiable")
    else:
        chk.violation("C15.rangeset", uses[0] if uses else po, "rng = request.http_range", "if process_range and <multi-range pattern>.fullmatch(<Range value>): process_range = <no range satisfiable>",
                      "`Range: bytes=0-1,3-4` on a 10-byte file is answered 416 with `Content-Range: bytes */10`: request.http_range accepts one range only and every ValueError becomes 416, although each of the ranges alone gets 206 (RFC 9110 14.2: a server may ignore the header; 416 is for `no range overlaps the file`)")
    # ---- C15.prepare.once: an override of prepare() starts with the guard of StreamResponse.prepare() ------------------------------------------------------
    npo = 0
    for rel, cname in ((FR, "FileResponse"), ("aiohttp/web_ws.py", "WebSocketResponse")):
        c = repo.cls(rel, cname)
        m = c.methods.get("prepare")
        if m is None:
            continue
        npo += 1
        body = [st for st in m.node.body if not (isinstance(st, ast.Expr) and isinstance(st.value, ast.Constant))]
        head = body[: 2]
        g_writer = any(isinstance(i, ast.If) and norm.raw(i.test) == "self._payload_writer is not None" and any(isinstance(x, ast.Return) for x in i.body) for i in head)
        g_sent = any(isinstance(i, ast.If) and norm.raw(i.test) == "self._eof_sent" and any(isinstance(x, ast.Return) for x in i.body) for i in head)
        if g_writer and (g_sent or cname != "FileResponse"):
            chk.ok("C15.prepare.once", m, f"{cname}.prepare() returns at once for a response that is already prepared" + (" / sent" if g_sent else ""))
        else:
            chk.violation("C15.prepare.once", m, f"{cname}.prepare", "if self._eof_sent: return None; if self._payload_writer is not None: return self._payload_writer",
                          f"{cname}.prepare() has no early return for a response that was prepared already: a handler that awaits resp.prepare(request) itself and returns the response (the usual way to delete a temporary file after sending it) has it prepared again by finish_response() - the file is opened again, set_status() runs on a sent response and an assertion closes the connection after every request (under -O the file is sent twice after one Content-Length)")
    chk.expect_count("C15.prepare.once", npo, 2, "overrides of StreamResponse.prepare()")
    # ---- C15.coding.weight: whoever chooses a content-coding from Accept-Encoding drops the members with weight 0 first ---------------------------------
    nae = 0
    for rel in (FR, WRP):
        for fn in repo.module(rel).functions.values():
            reads = [c for c in prog.calls_in(fn.node) if isinstance(c.func, ast.Attribute) and c.func.attr == "get" and c.args and norm.raw(c.args[0]) == "hdrs.ACCEPT_ENCODING"]
            if not reads:
                continue
            nae += 1
            scope = fn.cls.node if fn.cls is not None else fn.node  # the value may be handed to another method of the class
            if any(isinstance(c, ast.Call) and norm.raw(c.func).endswith("_has_zero_weight") for c in ast.walk(scope)):
                chk.ok("C15.coding.weight", reads[0], f"{fn.qualname}: codings listed with q=0 are left out before one is chosen")
            else:
                chk.violation("C15.coding.weight", reads[0], K.short(reads[0], 60), "drop the members for which _has_zero_weight(member) before testing membership",
                              f"{fn.qualname} tests `coding in accept_encoding` on the raw header text: `Accept-Encoding: gzip;q=0` (the client refuses gzip) gets a gzip body from enable_compression(), `deflate;q=0, gzip` gets deflate")
    chk.expect_count("C15.coding.weight", nae, 2, "functions that choose a content-coding from Accept-Encoding")
    # ---- C15.dirtarget: a name that asks for a directory is not answered with a regular file -------------------------------------------------------------------
    rp = repo.func(UD, "StaticResource._resolve_path_to_response")
    nf = [r for r, cn_ in K.raises_in(rp) if cn_ == "HTTPNotFound" and any(not l.pos and "is_dir()" in l.text for l in PC.units(PC.pc(r, raw=True)))]
    hd = repo.func(UD, "StaticResource._handle")
    asks = [a for a in ast.walk(hd.node) if isinstance(a, ast.Compare) and any(isinstance(x, ast.Constant) and x.value == "" for x in ast.walk(a)) and "filename" in norm.raw(a)]
    if nf and asks:
        chk.ok("C15.dirtarget", nf[0], "a request whose last path segment is empty, `.` or `..` is answered 404 when the target is not a directory (pathlib would drop the segment and open the file)")
    else:
        chk.violation("C15.dirtarget", rp, "file_path.is_dir()", "elif <the name asks for a directory>: raise HTTPNotFound()",
                      "`/static/f.txt/`, `/static/f.txt/.` and `/static/f.txt%2F` return 200 with the bytes of f.txt: the raw remainder is joined onto the root and pathlib drops trailing slashes and `.` segments before the file system is asked (which would answer ENOTDIR)")


def hunt3_rules(chk, repo):
    """Rules written after the third defect hunt (F195, F196)."""
    UD = "aiohttp/web_urldispatcher.py"
    # ---- C15.sandbox.fixpoint: only a path that resolves to itself is taken for resolved -----------------------------------------------------
    # Path.resolve() (non-strict, python < 3.13) gives up at a symlink loop and returns the remainder of the path as it stands, symlinks
    # included; relative_to(root) on such a half-resolved path proves nothing about where the file the OS will open lives.
    n = 0
    sr = repo.cls(UD, "StaticResource")
    for mname, m in sr.methods.items():
        defs = norm.fn_defs(m.node)
        for c in [c for c in prog.calls_in(m.node) if isinstance(c.func, ast.Attribute) and c.func.attr == "relative_to" and norm.raw(c.args[0] if c.args else None) == "self._directory"]:
            v = c.func.value
            if not isinstance(v, ast.Name):
                continue
            srcs = [norm.raw(x) for _d, x in defs.defs.get(v.id, []) if x is not None]
            if not any(s_.endswith(".resolve()") for s_ in srcs):
                continue  # the normpath of the joined path (follow-symlinks mode): nothing was resolved
            st = next(x for x in prog.enclosing(c, (ast.stmt,)))
            n += 1
            cl = PC.pc(st, raw=True)
            fix = any(len(cla) == 1 and ((not l.pos and l.text in (f"{v.id} != {v.id}.resolve()", f"{v.id}.resolve() != {v.id}")) or (l.pos and l.text in (f"{v.id} == {v.id}.resolve()", f"{v.id}.resolve() == {v.id}"))) for cla in cl for l in cla)
            strict = any("strict=True" in s_ for s_ in srcs)
            if fix or strict:
                chk.ok("C15.sandbox.fixpoint", c, f"StaticResource.{mname}: `{v.id}` is compared with its own resolve() (or resolved strictly) before the containment test")
            else:
                chk.violation("C15.sandbox.fixpoint", c, K.short(st), f"if {v.id} != {v.id}.resolve(): raise ValueError(...)",
                              f"StaticResource.{mname} trusts one Path.resolve(): at a circular symlink it stops and appends the rest of the path unresolved, so `/static/loop/../../escape -> /etc` passes relative_to(root) textually and the file outside the root is served (follow_symlinks=False)")
    chk.expect_count("C15.sandbox.fixpoint", n, 2, "containment tests on a resolve()d path in StaticResource")
    # ---- C15.cond.date: a date header that cannot be a date is ignored, not an error --------------------------------------------------------
    pd = repo.func("aiohttp/helpers.py", "parse_http_date")
    made = [c for c in prog.calls_in(pd.node) if norm.raw(c.func) in ("datetime.datetime", "datetime")]
    if not made:
        chk.analysis_error("C15.cond.date: parse_http_date() no longer builds a datetime")
    for c in made:
        caught = set()
        for w in prog.enclosing(c, (ast.With,)):
            for it in w.items:
                ce = it.context_expr
                if isinstance(ce, ast.Call) and norm.raw(ce.func) in ("suppress", "contextlib.suppress"):
                    caught |= {norm.raw(a) for a in ce.args}
        for _t, h in K.enclosing_try_handlers(c):
            caught |= set(PC.handler_types(h)) if h.type is not None else {"BaseException"}
        need_ = [x for x in ("ValueError", "OverflowError") if x not in caught and not ({"Exception", "BaseException", "ArithmeticError"} & caught if x == "OverflowError" else {"Exception", "BaseException"} & caught)]
        if not need_:
            chk.ok("C15.cond.date", c, "parse_http_date(): numbers that are out of range (ValueError) or too large for a C int (OverflowError) give `no date`")
        else:
            chk.violation("C15.cond.date", c, K.short(c, 60), "with suppress(ValueError, OverflowError)",
                          f"datetime.datetime(*timetuple) can raise {', '.join(need_)} for the digits of a date header (`If-Modified-Since: Sat, 01 Jan 99999999999 00:00:00 GMT`): the conditional request is answered 500 instead of being served unconditionally")


def conditional_rules(chk, repo):
    """Rules written after the defect hunt (DESIGN 12, F45-F48)."""
    po = repo.func(FR, "FileResponse._prepare_open_file")
    # ---- C15.ifrange: an If-Range that is not a date is an entity-tag and must be compared, not ignored ------------------------------------
    raw = [n for n in ast.walk(po.node) if isinstance(n, ast.Attribute) and n.attr == "IF_RANGE" and norm.raw(n) == "hdrs.IF_RANGE"]
    eq = [c for c in ast.walk(po.node) if isinstance(c, ast.Compare) and isinstance(c.ops[0], (ast.Eq, ast.NotEq)) and "etag" in norm.raw(c).lower()]
    if raw and eq:
        chk.ok("C15.ifrange", raw[0], "the raw If-Range header is consulted: an entity-tag is compared with the current strong ETag, anything that is not a matching date or tag disables the Range")
    else:
        chk.violation("C15.ifrange", po, "request.if_range", "request.headers.get(hdrs.IF_RANGE) compared with the current ETag",
                      "`request.if_range` is None both when the header is absent and when it carries an entity-tag (or garbage); treating None as `process the Range` answers 206 with a slice of the *new* file to a client that asked `only if unchanged since <old etag>`: it splices new bytes onto its stale prefix")
    # ---- C15.rangezero: a suffix range of length 0 selects nothing ---------------------------------------------------------------------------
    hr = repo.func(WR, "BaseRequest.http_range")
    neg = [a for a in ast.walk(hr.node) if isinstance(a, ast.Assign) and norm.raw(a) in ("start = -end",)]
    if not neg:
        chk.analysis_error("C15.rangezero: `start = -end` not found in BaseRequest.http_range")
    for a in neg:
        if PC.has_lit(PC.pc(a, raw=True), [("end == 0", False), ("end != 0", True), ("end", True), ("end > 0", True), ("not end", False)], True) is not None:
            chk.ok("C15.rangezero", a, "`bytes=-0` is handled before the suffix length is negated")
        else:
            chk.violation("C15.rangezero", a, "start = -end", "!(end == 0)",
                          "`Range: bytes=-0` (the last 0 bytes) becomes slice(-0, None) == slice(0, None): the whole file is sent with 206 instead of 416; handlers that slice a body with request.http_range are affected too")
    # ---- C15.listing: in follow-symlink mode the index is built from the path below the root -----------------------------------------------
    rp = repo.func(MOD, "StaticResource._resolve_path_to_response")
    for c, b in K.exprs(rp, "self._directory_as_html($P)"):
        p = b["P"]
        ds = norm.fn_defs(rp.node).defs.get(p.id, []) if isinstance(p, ast.Name) else []
        follow = [(d, v) for d, v in ds if PC.has_lit(PC.pc(d), "self._break_symlink_sandbox", True) is not None]
        if follow and all(not (isinstance(v, ast.Call) and norm.raw(v.func).endswith(".resolve")) for _d, v in follow):
            chk.ok("C15.listing", c, "follow-symlink mode: the directory index is built from the unresolved path below the root (its entries are named relative to the root)")
        else:
            chk.violation("C15.listing", c, K.short(c, 60), "the normalised, unresolved path in follow-symlink mode",
                          "with show_index and follow_symlinks, a directory behind a symlink that points outside the root is listed from its resolved path; _directory_as_html() calls relative_to(root) on it and the request ends in a 500 although files below that link are served")
    # ---- C15.oserror: file-system errors while examining the path are client errors, not 500 ---------------------------------------------------
    isd = [c for c, _b in K.exprs(rp, "file_path.is_dir()")]
    for c in isd:
        hs = {t for _t, h in K.enclosing_try_handlers(c) for t in PC.handler_types(h)}
        if "OSError" in hs:
            chk.ok("C15.oserror", c, "an OSError while examining the path (e.g. ENAMETOOLONG) is answered 404 / 403")
        else:
            chk.violation("C15.oserror", c, K.short(c), "except OSError: raise HTTPNotFound()", "is_dir() raises OSError for e.g. a path segment longer than the file system allows; only PermissionError is handled, the request ends in a 500")
    # ---- C15.listing: names the file system hands out are not always encodable (surrogate escapes): the page is encoded leniently -------------
    for c, b in K.exprs(rp, "self._directory_as_html($P)"):
        # the Response built from the listing: directly (text=...) or through a local
        users = []
        st = K.stmt_of(c)
        holder = st.targets[0].id if isinstance(st, ast.Assign) and isinstance(st.targets[0], ast.Name) else None
        for r in prog.calls_in(rp.node):
            if norm.raw(r.func) != "Response":
                continue
            for k in r.keywords:
                if any(x is c for x in ast.walk(k.value)) or (holder and any(isinstance(x, ast.Name) and x.id == holder for x in ast.walk(k.value))):
                    users.append((r, k))
        if not users:
            chk.analysis_error("C15.listing: the Response carrying the directory index was not found")
        for r, k in users:
            lenient = k.arg == "body" and any(isinstance(e, ast.Call) and isinstance(e.func, ast.Attribute) and e.func.attr == "encode"
                                              and any(isinstance(a, ast.Constant) and a.value in ("replace", "surrogateescape", "backslashreplace", "xmlcharrefreplace", "ignore") for a in list(e.args) + [kw.value for kw in e.keywords])
                                              for e in ast.walk(k.value))
            if lenient:
                chk.ok("C15.listing", r, "the index page is encoded with an error handler: an entry whose name is not valid UTF-8 does not fail the listing")
            else:
                chk.violation("C15.listing", r, K.short(r, 70), "body=<page>.encode('utf-8', 'replace')",
                              "the index page is encoded strictly (Response(text=...)): one file whose name is not valid UTF-8 (Python returns it with surrogate escapes) turns the enabled listing of the whole directory into a 500 and a closed connection")
    # ---- C15.rangecode: Content-Range describes bytes of the stored representation; such a slice is not content-coded on the fly ----------------
    crs = [s_ for s_, _b in K.stmts(po, "self._headers[hdrs.CONTENT_RANGE] = $V") if "bytes */" not in norm.raw(s_)]
    if not crs:
        chk.analysis_error("C15.rangecode: the 206 Content-Range assignment was not found in FileResponse._prepare_open_file")
    for s_ in crs:
        blk = PC._block_of(s_) or []
        off = any(isinstance(x, ast.Assign) and norm.raw(x.targets[0]) == "self._compression" and isinstance(x.value, ast.Constant) and not x.value.value
                  and all("_compression" in l.text for c_ in PC.pc(x, stop=K.stmt_of(s_).parent, raw=True) for l in c_ if l not in [l2 for c2 in PC.pc(s_, stop=K.stmt_of(s_).parent, raw=True) for l2 in c2])
                  for b_ in blk for x in ast.walk(b_))
        guarded = PC.has_lit(PC.pc(s_, raw=True), [("self._compression", False), ("not self._compression", True)], True) is not None
        if off or guarded:
            chk.ok("C15.rangecode", s_, "a 206 slice is sent as stored: on-the-fly compression is off whenever Content-Range is set")
        else:
            chk.violation("C15.rangecode", s_, K.short(s_, 70), "self._compression = False (or ignore Range when the response is compressed)",
                          "FileResponse supports enable_compression() (e.g. from a middleware) and applies a Range regardless: the 206 announces `bytes 10-19/1024` and carries gzip(data[10:20]) - neither the announced bytes nor bytes 10-19 of the gzip representation served under the same ETag; a client resuming with If-Range splices garbage")
    # ---- C15.ifrange (date form): RFC 9110 13.1.5 - an If-Range date matches only the exact Last-Modified value -----------------------------
    cmps = [c for c in ast.walk(po.node) if isinstance(c, ast.Compare) and "ifrange.timestamp()" in norm.raw(c) and "mtime" in norm.raw(c)]
    if not cmps:
        chk.analysis_error("C15.ifrange: the If-Range date comparison was not found in FileResponse._prepare_open_file")
    for c in cmps:
        if isinstance(c.ops[0], ast.Eq):
            chk.ok("C15.ifrange", c, "an If-Range date enables the Range only when it equals the file's Last-Modified")
        else:
            chk.violation("C15.ifrange", c, norm.raw(c), "file_mtime == ifrange.timestamp() (exact match)",
                          "an If-Range date is accepted when it is merely not older than the file: after a file is replaced by a version with an older mtime (rollback, cp -p, rsync -t) a client resuming with the old Last-Modified gets 206 and splices the tail of another file; any future date also yields 206")
    # ---- C15.cond: a conditional header that is present but holds no valid entity-tag is not an absent header ---------------------------------
    # request.if_match / if_none_match return None for `absent` and a (possibly empty) tuple for `present`; RFC 9110 13.1.1/13.1.2: a present
    # If-Match with no matching tag fails the precondition, a present If-None-Match switches If-Modified-Since off
    frc = repo.cls(FR, "FileResponse")
    tagged: dict[str, set[str]] = {}   # method name -> names carrying the tag tuple
    SRC = ("request.if_match", "request.if_none_match")
    for m in frc.methods.values():
        names = set()
        for x in ast.walk(m.node):
            if isinstance(x, ast.NamedExpr) and norm.raw(x.value) in SRC:
                names.add(x.target.id)
            elif isinstance(x, ast.Assign) and norm.raw(x.value) in SRC and isinstance(x.targets[0], ast.Name):
                names.add(x.targets[0].id)
        tagged[m.name] = names
    for m in frc.methods.values():
        for c in prog.calls_in(m.node):
            if isinstance(c.func, ast.Attribute) and norm.raw(c.func.value) in ("self", "cls") and c.func.attr in frc.methods:
                callee = frc.methods[c.func.attr]
                params = [a.arg for a in callee.node.args.args if a.arg not in ("self", "cls")]
                for p_, a in zip(params, c.args):
                    if norm.raw(a) in SRC or (isinstance(a, ast.Name) and a.id in tagged.get(m.name, ())):
                        tagged.setdefault(callee.name, set()).add(p_)
    ntag = 0
    for m in frc.methods.values():
        names = tagged.get(m.name, set())
        if not names:
            continue
        for t in ast.walk(m.node):
            tests = []
            if isinstance(t, (ast.If, ast.While, ast.IfExp)):
                tests = [t.test]
            for te in tests:
                for x in ast.walk(te):
                    bare = None
                    if x is te and isinstance(x, ast.Name):
                        bare = x
                    elif isinstance(x, ast.BoolOp):
                        bare = next((v for v in x.values if isinstance(v, ast.Name) and v.id in names), None)
                    elif isinstance(x, ast.UnaryOp) and isinstance(x.op, ast.Not) and isinstance(x.operand, ast.Name):
                        bare = x.operand
                    if bare is not None and bare.id in names:
                        ntag += 1
                        chk.violation("C15.cond", te, norm.raw(te), f"{bare.id} is not None",
                                      f"{m.name}() tests the entity-tag tuple `{bare.id}` for truthiness: a header that is present but holds no well-formed tag (`If-Match: abc`, `If-None-Match: abc`) is an empty tuple and is treated like an absent header - If-Match no longer fails with 412, and If-Modified-Since is consulted although If-None-Match is present (a 304 with an empty body where the slice was due)")
    if not ntag:
        chk.ok("C15.cond", frc.node, "presence of If-Match / If-None-Match is tested with `is (not) None`, never by the truthiness of the parsed tag tuple")
