"""C03 HTTP parsing does not depend on how the byte stream is segmented (DESIGN 5/C03).

The resumable-parser rules (RP) are shared with C10 (limits) and C12 (WebSocket reader)."""
from __future__ import annotations

import ast

from sa import dataflow as D, match as M, norm, pc as PC, prog, rulekit as K
from sa.cfg import ALL, EXPLICIT, cfg_of
from sa.loader import AnalysisError

MOD = "aiohttp/http_parser.py"


# --------------------------------------------------------------------------------------------------
# shared RP machinery


def buffer_param(fn) -> str:
    a = fn.node.args
    ps = [p.arg for p in a.posonlyargs + a.args]
    if len(ps) < 2:
        raise AnalysisError(f"RP: {fn.where} has no buffer parameter")
    return ps[1]


def init_only_attrs(repo, ci) -> set[str]:
    """Attributes of self assigned only in __init__ (configuration), vs state attributes."""
    init, other = set(), set()
    for c in repo.mro(ci):
        for name, m in c.methods.items():
            for n in ast.walk(m.node):
                tgts = []
                if isinstance(n, ast.Assign):
                    for t in n.targets:
                        tgts += list(t.elts) if isinstance(t, (ast.Tuple, ast.List)) else [t]
                elif isinstance(n, (ast.AnnAssign, ast.AugAssign)):
                    tgts = [n.target]
                for t in tgts:
                    if isinstance(t, ast.Attribute) and isinstance(t.value, ast.Name) and t.value.id == "self":
                        (init if name == "__init__" else other).add(t.attr)
                if isinstance(n, ast.Call) and isinstance(n.func, ast.Attribute) and n.func.attr in prog.MUTATORS:
                    r = n.func.value
                    if isinstance(r, ast.Attribute) and isinstance(r.value, ast.Name) and r.value.id == "self" and name != "__init__":
                        other.add(r.attr)
    return init - other


def offset_names(fn_node, buf: set[str]) -> set[str]:
    """Locals used as an offset into the buffer (slice bound / start argument of find/index/startswith)
    or defined as len(buffer)."""
    out = set()
    for n in ast.walk(fn_node):
        if isinstance(n, ast.Subscript) and isinstance(n.value, ast.Name) and n.value.id in buf:
            for s in ast.walk(n.slice):
                if isinstance(s, ast.Name):
                    out.add(s.id)
        elif isinstance(n, ast.Call) and isinstance(n.func, ast.Attribute) and isinstance(n.func.value, ast.Name) and n.func.value.id in buf \
                and n.func.attr in ("find", "index", "rfind", "startswith", "endswith"):
            for a in n.args[1:]:
                for s in ast.walk(a):
                    if isinstance(s, ast.Name):
                        out.add(s.id)
        elif isinstance(n, ast.Assign) and len(n.targets) == 1 and isinstance(n.targets[0], ast.Name):
            v = n.value
            if isinstance(v, ast.Call) and isinstance(v.func, ast.Name) and v.func.id == "len" and v.args and isinstance(v.args[0], ast.Name) and v.args[0].id in buf:
                out.add(n.targets[0].id)
    defs = norm.fn_defs(fn_node)
    a = fn_node.args
    params = {p.arg for p in a.posonlyargs + a.args + a.kwonlyargs}
    return {x for x in out - buf if x in defs.defs and x not in params}


def buffer_aliases(fn_node, bufparam: str) -> set[str]:
    """The buffer and names bound to views/copies of it (memoryview / bytes casts / cdef aliases)."""
    out = {bufparam}
    changed = True
    while changed:
        changed = False
        for n in ast.walk(fn_node):
            if isinstance(n, ast.Assign) and len(n.targets) == 1 and isinstance(n.targets[0], ast.Name) and n.targets[0].id not in out:
                v = n.value
                if isinstance(v, ast.Name) and v.id in out:
                    out.add(n.targets[0].id)
                    changed = True
    return out


def rp_rule(chk, rule: str, repo, fn, what: str, min_carried: int = 1):
    """T8: every local carried across iterations of the main loop with a definition inside the loop is
    positional (the buffer, its length, an offset into it) and never reads configuration."""
    loop = D.main_loop(fn.node)
    if loop is None:
        raise AnalysisError(f"{rule}: no main loop in {fn.where}")
    bufp = buffer_param(fn)
    bufs = buffer_aliases(fn.node, bufp)
    offs = offset_names(fn.node, bufs)
    ci = fn.cls
    config = init_only_attrs(repo, ci) if ci is not None else set()
    carried = D.carried_locals(fn.node, loop)
    n_checked = 0
    # state attributes assigned inside the loop
    lids_ast = {id(x) for x in ast.walk(loop)}
    state_written_in_loop = set()
    for n in ast.walk(loop):
        tg = []
        if isinstance(n, ast.Assign):
            for t in n.targets:
                tg += list(t.elts) if isinstance(t, (ast.Tuple, ast.List)) else [t]
        elif isinstance(n, (ast.AugAssign, ast.AnnAssign)):
            tg = [n.target]
        for t in tg:
            if isinstance(t, ast.Attribute) and isinstance(t.value, ast.Name) and t.value.id == "self":
                state_written_in_loop.add(t.attr)
        # ... and containers changed in place (self._lines.append(line), .clear(), ...)
        if isinstance(n, ast.Call) and isinstance(n.func, ast.Attribute) and n.func.attr in ("append", "extend", "clear", "pop", "popleft", "appendleft", "insert", "add", "discard", "remove", "update") \
                and isinstance(n.func.value, ast.Attribute) and isinstance(n.func.value.value, ast.Name) and n.func.value.value.id == "self":
            state_written_in_loop.add(n.func.value.attr)
    for name, c in sorted(carried.items()):
        if not c.loop_defs:
            # constant during one call.  RP4: it must not be a snapshot of parser state that the loop itself updates
            if name in bufs or name in offs or name == "self":
                continue
            for d in c.entry_defs:
                rhs = D.def_rhs(d, name)
                if rhs is None:
                    continue
                reads = {s.attr for s in ast.walk(rhs) if isinstance(s, ast.Attribute) and isinstance(s.value, ast.Name) and s.value.id == "self"}
                stale = sorted(reads & state_written_in_loop)
                decisions = [u for u in c.uses if any(isinstance(a, (ast.Compare, ast.If, ast.While, ast.IfExp, ast.BoolOp)) for a in _ancestors(u, loop))]
                if stale and decisions:
                    chk.violation(rule, d.ast, name, f"snapshot of self.{stale[0]} taken before the parse loop",
                                  f"{what}: local `{name}` is computed from parser state (self.{', self.'.join(stale)}) once per call, but the loop changes that state and still reads `{name}` "
                                  f"at line(s) {sorted({u.lineno for u in decisions})}: after a state transition inside the same call the decision uses the value of the previous state, "
                                  "so the outcome depends on whether the transition and the use fall into one read")
            continue
        n_checked += 1
        positional = name in bufs or name in offs
        cfg_reads = []
        for d in c.loop_defs + c.entry_defs:
            rhs = D.def_rhs(d, name)
            if rhs is None:
                continue
            for s in ast.walk(rhs):
                if isinstance(s, ast.Attribute) and isinstance(s.value, ast.Name) and s.value.id == "self" and s.attr in config:
                    cfg_reads.append((d, s.attr))
        uses = sorted({u.lineno for u in c.uses})
        if positional and not cfg_reads:
            chk.ok(rule, c.loop_defs[0].ast, f"{what}: carried local `{name}` is positional (buffer / length / offset into the current buffer); defs at lines "
                   f"{sorted({d.lineno for d in c.entry_defs})} (entry) {sorted({d.lineno for d in c.loop_defs})} (loop)")
            continue
        d0 = c.loop_defs[0]
        why = "reads configuration attribute(s) " + ", ".join(sorted({a for _d, a in cfg_reads})) if cfg_reads else "is neither the buffer, its length nor an offset into it"
        chk.violation(rule, d0.ast, name, f"carried across iterations (entry defs at {sorted({d.lineno for d in c.entry_defs})}, loop defs at {sorted({d.lineno for d in c.loop_defs})})",
                      f"{what}: local `{name}` {why}, is (re)defined inside the parse loop and read at line(s) {uses} in a later iteration: the decision it feeds "
                      f"differs when a read boundary falls between the definition and the use (the value is reset per call instead of being parser state)")
    if n_checked < min_carried:
        chk.analysis_error(f"{rule}: expected at least {min_carried} carried local(s) in {fn.where}, found {n_checked}")
    return carried, bufs, offs, loop


def _ancestors(node, stop):
    n = getattr(node, "parent", None)
    while n is not None and n is not stop:
        yield n
        n = getattr(n, "parent", None)


def rp3_rule(chk, rule: str, fn, bufs: set[str], offs: set[str], loop, what: str):
    """After the buffer is rebound inside the loop, every offset local is redefined before it is used again."""
    g = cfg_of(fn.node)
    lids = D.loop_nodes(g, loop)
    n_reb = 0
    for n in g.nodes:
        if n.id not in lids or n.in_finally_copy is not None:
            continue
        rebound = D.node_defs(n) & bufs
        if not rebound:
            continue
        b = sorted(rebound)[0]
        rhs = D.def_rhs(n, b)
        # rebinding to the empty constant: no offset can be misapplied to an empty buffer
        if rhs is not None and (isinstance(rhs, ast.Constant) and rhs.value in (b"", "") or (isinstance(rhs, ast.Name) and rhs.id == "EMPTY")):
            continue
        # re-slicing relative to an offset (`chunk = chunk[pos + n:]`) consumes; offsets named in the slice are dead afterwards by construction
        n_reb += 1
        alive = {n.id: set(offs) - D.node_defs(n)}
        work = [n]
        reported = set()
        while work:
            x = work.pop()
            for t, k, h in x.succ:
                if not g.edge_ok(EXPLICIT, k, h) or t.id not in lids:
                    continue  # uses after the loop are guarded by the emptiness test of the returned remainder
                facts = alive[x.id]
                uses = D.node_uses(t, include_closures=False)
                for o in sorted(facts):
                    if o in uses and (o, t.id) not in reported:
                        reported.add((o, t.id))
                        chk.violation(rule, t.ast if isinstance(t.ast, ast.AST) else fn.node, o, f"redefinition of `{o}` after `{K.short(n.ast, 50)}`",
                                      f"{what}: `{o}` is an offset into `{b}`, which is rebound at line {n.lineno}; `{o}` is used at line {t.lineno} without having been "
                                      "recomputed for the new buffer (stale offset skips or re-reads bytes of the next message)")
                o2 = facts - D.node_defs(t)
                if t.id not in alive or not (o2 <= alive[t.id]):
                    # meet = union (may-analysis: some path leaves it stale)
                    alive[t.id] = alive.get(t.id, set()) | o2
                    if alive[t.id]:
                        work.append(t)
        if not reported:
            chk.ok(rule, n.ast, f"{what}: after `{K.short(n.ast, 50)}` every offset local ({', '.join(sorted(offs)) or 'none'}) is recomputed before its next use")
    return n_reb


# --------------------------------------------------------------------------------------------------


def partial_reject_rule(chk, fn, tail_attr: str, rule="C03.partial"):
    """Rule written after seeding round 6 (seed C03-6): a rejection decided on an incomplete line looks at the bytes it refuses.
    Where the parser keeps an incomplete line for the next read (`self.<tail> = <rest>`), it knows a prefix of the line only.  Refusing there is
    sound when the refusal follows from the bytes in hand for every continuation (a bare LF, a length over the limit).  A refusal that rests on
    parser state alone also fires for the prefix of input that the complete-line path accepts in that state (the CR of a stray CRLF after a
    message that closes the connection: skipped when it arrives whole, refused when the read ends between CR and LF)."""
    spell = [t for t in K.tail_spellings(fn, tail_attr) if t != f"self.{tail_attr}"]
    blocks = []
    for a in ast.walk(K._root(fn)):
        if isinstance(a, ast.Assign) and any(norm.raw(t) == f"self.{tail_attr}" for t in a.targets) and not isinstance(a.value, ast.Constant) and norm.raw(a.value) not in ("EMPTY", "b''") and f"self.{tail_attr}" not in norm.raw(a.value):
            blk = PC._block_of(a)
            # the store happens when input runs out: the statements of its block end the pass over the buffer (break / return / data = EMPTY)
            if blk is not None and any(isinstance(x, (ast.Break, ast.Return)) for x in blk[blk.index(a) + 1:]) and blk not in blocks:
                blocks.append(blk)
    names = set()
    for t in spell:
        try:
            names |= {n.id for n in ast.walk(ast.parse(t, mode="eval")) if isinstance(n, ast.Name)} - {"self"}
        except SyntaxError:
            pass
    # locals the retained bytes are built from in the same block (tail = data[start_pos:])
    n_r = 0
    for blk in blocks:
        local = set(names)
        for st_ in blk:
            if isinstance(st_, ast.Assign) and isinstance(st_.targets[0], ast.Name) and any(norm.raw(st_.targets[0]) in sp or norm.raw(st_.value) in sp for sp in spell):
                local.add(st_.targets[0].id)
        store = next(x for x in blk if isinstance(x, ast.Assign) and any(norm.raw(t) == f"self.{tail_attr}" for t in x.targets))
        # ... and locals computed from them anywhere in the function (size_b = chunk.partition(...)[0]; ending = chunk[skip:...])
        grew = True
        while grew:
            grew = False
            for st_ in [K._root(fn)]:
                for a in ast.walk(st_):
                    if isinstance(a, (ast.Assign, ast.NamedExpr)):
                        tg = [a.target] if isinstance(a, ast.NamedExpr) else a.targets
                        if any(isinstance(n, ast.Name) and n.id in local for n in ast.walk(a.value)):
                            for t in tg:
                                for n in (t.elts if isinstance(t, (ast.Tuple, ast.List)) else [t]):
                                    if isinstance(n, ast.Name) and n.id not in local:
                                        local.add(n.id)
                                        grew = True
        for st_ in blk[:blk.index(store)]:
            # guards of the incomplete line: `if <test>: ...; raise` statements of the block itself (a complete-line branch that ends in
            # continue/return and was written without `else` is not one of them)
            if not (isinstance(st_, ast.Raise) or (isinstance(st_, ast.If) and st_.body and isinstance(st_.body[-1], ast.Raise))):
                continue
            for r in ([st_] if isinstance(st_, ast.Raise) else [st_.body[-1]]):
                n_r += 1
                tests = []
                cur = r
                for anc in list(_ancestors(r, st_)) + [st_]:
                    if isinstance(anc, (ast.If, ast.While)):
                        tests.append(anc.test)
                # a test *looks at* the bytes when it asks for their content or their length against a limit; asking only whether there are
                # any (`if chunk and <state>`) does not (round 7, seed C03-7)
                def looks(t):
                    for x in ast.walk(t):
                        nm = x.id if isinstance(x, ast.Name) else norm.raw(x) if isinstance(x, ast.Attribute) else None
                        if nm is None or nm not in (local | {f"self.{tail_attr}"}):
                            continue
                        par = getattr(x, "parent", None)
                        if isinstance(par, (ast.BoolOp, ast.If, ast.While)) or (isinstance(par, ast.UnaryOp) and isinstance(par.op, ast.Not)) or par is None or x is t:
                            continue  # bare truthiness
                        return True
                    return False
                seen = {n.id for t in tests for n in ast.walk(t) if isinstance(n, ast.Name)} | {norm.raw(n) for t in tests for n in ast.walk(t) if isinstance(n, ast.Attribute)}
                content = set()
                for t in tests:
                    for cj in (t.values if isinstance(t, ast.BoolOp) and isinstance(t.op, ast.And) else [t]):
                        if looks(cj):
                            content |= {n.id for n in ast.walk(cj) if isinstance(n, ast.Name)} & local
                seen = (seen - local) | content
                # the state part of a mixed test is what remains to be justified when the byte part is only `is there anything`
                tests = [cj for t in tests for cj in (t.values if isinstance(t, ast.BoolOp) and isinstance(t.op, ast.And) else [t]) if not (isinstance(cj, ast.Name) and cj.id in local)] if not content else tests
                if seen & (local | {f"self.{tail_attr}"}):
                    chk.ok(rule, r, f"the incomplete line is refused because of its own bytes ({', '.join(sorted(seen & local))}): true for every continuation")
                    continue
                # A refusal on parser state alone.  It is equivalent to what the complete-line path does iff that path refuses every line in
                # the same state.  Decided by contradiction: the same literal guards a raise over there (the counterpart), and some way round
                # the loop in the same branch of the parser consumes input (`continue`) without having passed that test.
                mine = {(l.text, l.pos) for l in PC.units(PC.pc(r, raw=True))}
                state = {(l.text, l.pos) for t in tests for cl_ in norm.cnf_raw(t, True) if len(cl_) == 1 for l in cl_}
                loop = next((l_ for l_ in K.loop_ancestors(r)), None)
                others = [x for x in ast.walk(K._root(fn)) if isinstance(x, ast.Raise) and x is not r and not any(x in ast.walk(b_) for b_ in blk)]
                counterparts = []
                for x in others:
                    ux = {(l.text, l.pos) for l in PC.units(PC.pc(x, raw=True))}
                    if state and state <= ux:
                        counterparts.append((x, ux))
                verdict = None
                for x, ux in counterparts:
                    common = (mine & ux) - state
                    for k in ast.walk(loop) if loop is not None else []:
                        if not isinstance(k, ast.Continue) or next(iter(K.loop_ancestors(k)), None) is not loop:
                            continue
                        uk = {(l.text, l.pos) for l in PC.units(PC.pc(k, raw=True))}
                        if common <= uk and not any((t_, p_) in uk or (t_, not p_) in uk for t_, p_ in state):
                            verdict = (x, k)
                            break
                    if verdict:
                        break
                if verdict:
                    x, k = verdict
                    chk.violation(rule, r, K.short(r), f"a test of the retained bytes ({', '.join(sorted(local))}) in front of the raise",
                                  f"{fn.qualname} refuses an incomplete line on parser state alone ({' and '.join(norm.raw(t) for t in tests)}), while a complete line in the same state is first looked at: line {k.lineno} goes on to the next line (`continue`) before line {x.lineno} tests the same condition - the same bytes are accepted in one read and refused when the read ends inside the line (a stray CRLF after a message that closes the connection: skipped when it arrives whole, `400 Data after Connection: close` when the read ends between CR and LF)")
                elif counterparts:
                    chk.ok(rule, r, f"the incomplete line is refused on parser state ({' and '.join(norm.raw(t) for t in tests)}) under which the complete-line path refuses every line as well (line {counterparts[0][0].lineno} is tested before anything is consumed)")
                else:
                    names = {norm.raw(n) for t in tests for n in ast.walk(t) if isinstance(n, ast.Attribute)}
                    related = [x for x in others if any(nm in norm.raw(i.test) for i in _ancestors(x, K._root(fn)) if isinstance(i, ast.If) for nm in names)]
                    # the complete-line path spares the empty line (`if line and <state>`): bytes that can still become one (a lone CR, the
                    # first half of the CRLF that ends the section) must be spared by the early refusal as well
                    spares_empty = [x for x in related if any(l.pos and l.text.isidentifier() and l.text in ("line", "bline", "hline") for l in PC.units(PC.pc(x, raw=True)))]
                    excludes_cr = any(any(k in norm.raw(t) for k in (".strip(", ".rstrip(", "!= b'\\r'", "!= SEP", "not in (b'\\r'", ".startswith(")) for t in tests)
                    if spares_empty and not excludes_cr:
                        chk.violation(rule, r, K.short(r), "spare the bytes that may still become the empty line: `if chunk.strip(b'\\r') and <state>`",
                                      f"{fn.qualname} refuses an incomplete line on parser state ({' and '.join(norm.raw(t) for t in tests)}), while the complete-line path (line {spares_empty[0].lineno}) applies the same limit only to a non-empty line: the CR of the CRLF that ends the section is an incomplete line too - a message whose fields use the budget exactly is accepted in one read and refused with `Too many ...` when the read ends between that CR and LF")
                    elif related:
                        chk.ok(rule, r, f"refusal of an incomplete line on parser state ({' and '.join(norm.raw(t) for t in tests)}); the complete-line path tests related state in another form (line {related[0].lineno}): equivalence not decided")
                    else:
                        chk.violation(rule, r, K.short(r), f"a test of the retained bytes ({', '.join(sorted(local))}) in front of the raise",
                                      f"{fn.qualname} refuses an incomplete line on parser state alone ({' and '.join(norm.raw(t) for t in tests) or 'unconditionally'}) that no rejection of a complete line depends on: the same bytes are accepted when the line arrives whole and refused when the read ends inside it")
    if not blocks:
        chk.analysis_error(f"{rule}: the place where {fn.qualname} keeps an incomplete line (self.{tail_attr} = <rest>; break) was not found")
    chk.expect_count(rule, n_r, 1 if tail_attr == "_tail" else 0, f"rejections on incomplete input in {fn.qualname}")


def limits_rule(chk, rule: str, fn, what: str, tail_attr: str):
    """RP2: the limit a *buffered partial* line is compared with equals the limit of a *complete* line
    at the same syntactic position."""
    raises = [(n, cls) for n, cls in K.raises_in(fn.node) if cls and cls.endswith("LineTooLong")]
    spellings = K.tail_spellings(fn, tail_attr)  # the partial line may be measured on the value about to be stored
    partial, complete = [], []
    for n, _cls in raises:
        clauses = PC.pc(n)
        for lit in PC.units(clauses):
            if not lit.pos:
                continue
            try:
                e = ast.parse(lit.text, mode="eval").body
            except SyntaxError:
                continue
            if isinstance(e, ast.Compare) and isinstance(e.ops[0], ast.Gt):
                left, right = norm.raw(e.left), norm.raw(e.comparators[0])
                state = sorted(l.text for l in PC.units(clauses) if l.pos and M.match_text("self._chunk == $S", l.text))
                rec = (n, left, right, state)
                if tail_attr in left or any(sp in left for sp in spellings[1:]):
                    partial.append(rec)
                elif "len(" in left or left in ("pos", "line_len") or left.startswith("header_length"):  # line_len: pos minus the CR of a lax line ending
                    complete.append(rec)
    if not partial:
        chk.violation(rule, fn, f"len(self.{tail_attr}) > <limit> -> LineTooLong", "limit check on the buffered partial line",
                      f"{what}: the buffered partial line is never compared with a limit (unbounded retention and segmentation-dependent limits)")
        return
    if not complete:
        chk.analysis_error(f"{rule}: no complete-line LineTooLong check found in {fn.where}")
        return
    comp_limits = {}
    for n, left, right, state in complete:
        comp_limits.setdefault(right, []).append((n, state))
    for n, left, right, state in partial:
        # the limit may be a local with several definitions: expand
        lims = _expand_local(fn, right)
        for lim, lim_state in lims:
            if lim in comp_limits:
                cstates = [s for _n, s in comp_limits[lim]]
                if lim_state and not any(set(lim_state) <= set(cs) for cs in cstates):
                    chk.violation(rule, n, K.short(n), f"limit {lim} under {lim_state}", f"{what}: partial-line limit `{lim}` applies in parser state {lim_state} "
                                  f"but the complete-line check with that limit applies in {cstates}")
                else:
                    chk.ok(rule, n, f"{what}: buffered partial line and complete line are compared with the same limit `{lim}`" + (f" in state {lim_state}" if lim_state else ""))
            else:
                chk.violation(rule, n, K.short(n), f"limit {lim}",
                              f"{what}: a buffered partial line is compared with `{lim}` while complete lines are compared with {sorted(comp_limits)}: "
                              "the same bytes are accepted or rejected depending on where a read boundary falls")
    # every complete-line limit has a partial counterpart (same limit, same parser state)
    pl = [(lim, st) for _n, _l, right, _s in partial for lim, st in _expand_local(fn, right)]
    for lim, recs in comp_limits.items():
        for n, cstate in recs:
            if not any(pl_lim == lim and (not pst or not cstate or set(pst) == set(cstate)) for pl_lim, pst in pl):
                chk.violation(rule, n, K.short(n), f"partial-line check with limit {lim}" + (f" in state {cstate}" if cstate else ""),
                              f"{what}: complete lines are limited by `{lim}`" + (f" in state {cstate}" if cstate else "") + " but a buffered partial line at that position is compared with a different limit: "
                              "the same bytes are accepted or rejected depending on where a read boundary falls")


def _expand_local(fn, text: str):
    """A limit expression that is a bare multi-definition local -> [(def rhs text, state literals)]."""
    try:
        e = ast.parse(text, mode="eval").body
    except SyntaxError:
        return [(text, [])]
    if isinstance(e, ast.Name):
        ds = norm.fn_defs(fn.node).defs.get(e.id, [])
        out = []
        for dnode, val in ds:
            if val is None:
                continue
            st = sorted(l.text for l in PC.units(PC.pc(dnode)) if l.pos and M.match_text("self._chunk == $S", l.text))
            out.append((norm.text(val, dnode), st))
        if out:
            return out
    return [(text, [])]


STATE_OWNERS = {
    "HttpParser": {
        "attrs": ["_tail", "_lines", "_payload_parser", "_payload_has_more_data", "_upgraded", "_pending_upgrade", "_msg_in_flight", "_should_close"],
        "writers": {
            "HttpParser.__init__": "initial state", "HttpParser.feed_data": "the parse loop", "HttpParser.feed_eof": "end of input",
            "HttpParser.set_upgraded": "protocol switches after a 101 was sent", "HttpParser.message_consumed": "protocol drained a queued message",
            "HttpResponseParser.feed_data": "delegates to the base parse loop",
        },
    },
    "HttpPayloadParser": {
        "attrs": ["_chunk", "_chunk_size", "_chunk_tail", "_length", "_trailer_lines", "_paused", "_more_data_available", "_eof_pending", "_type"],
        "writers": {
            "HttpPayloadParser.__init__": "initial state", "HttpPayloadParser.feed_data": "the body state machine", "HttpPayloadParser.feed_eof": "end of input",
            "HttpPayloadParser.pause_reading": "reader buffer full",
        },
    },
}


def run(chk):
    repo = chk.repo
    chk.explanation = (
        "Decided on aiohttp/http_parser.py: (RP) no local that is (re)defined inside the parse loop of HttpParser.feed_data / "
        "HttpPayloadParser.feed_data and read in a later iteration is anything but the buffer, its length or an offset into it - a "
        "decision fed by such a local differs when a read boundary falls between definition and use, for every cut position at once; "
        "(RP3) offsets are recomputed whenever the buffer is rebound; (RP2) a buffered partial line is compared with the same limit as "
        "a complete line at that syntactic position; parse-state attributes have a closed set of writers; unconsumed input is stored "
        "before the loop is left."
    )
    chk.not_decided = "arithmetic correctness of the offsets themselves; equality of delivered bodies/chunk boundaries under all cuts (value level)."
    chk.explanation += " Also decided: the input buffer is only extended at the front by the saved tail or consumed from the front, the saved remainder is the whole unconsumed input, offsets are recomputed when the buffer is rebound, no decision reads a stale snapshot of parser state, and a one-shot latch that inspects the buffer is consumed only by a non-empty buffer. After the defect hunt: CONNECT tunnel bytes must reach the payload stream the parser owns whichever read they arrive in (known finding F87)."
    chk.explanation += " Round 4 / second hunt: bytes consumed in a chunk state are recorded before more input is requested; sibling validation sites of one grammar normalise alike. Known: requests completed before a malformed one in the same read are dropped (F122)."
    hp = repo.func(MOD, "HttpParser.feed_data")
    pp = repo.func(MOD, "HttpPayloadParser.feed_data")
    for fn, nm in ((hp, "message-head parser"), (pp, "body parser")):
        _c, bufs, offs, loop = rp_rule(chk, "C03.rp", repo, fn, f"{nm}: parse decisions are independent of call boundaries")
        nreb = rp3_rule(chk, "C03.rp3", fn, bufs, offs, loop, f"{nm}: offsets follow the buffer")
    limits_rule(chk, "C03.rp2", hp, "start line / header line limits", "_tail")
    limits_rule(chk, "C03.rp2", pp, "chunk-size / trailer line limits", "_chunk_tail")
    # state owners
    for cname, spec in STATE_OWNERS.items():
        for attr in spec["attrs"]:
            w = prog.writers(repo, [MOD], attr)
            if not w:
                chk.analysis_error(f"C03.state: state attribute {cname}.{attr} has no writer (anchor vanished)")
                continue
            for f, hits in w.items():
                # attribute names are shared between the two classes (_paused...): judge by class
                owner_cls = f.qualname.split(".")[0]
                if owner_cls not in ("HttpParser", "HttpRequestParser", "HttpResponseParser", "HttpPayloadParser"):
                    continue
                allowed = {}
                for s2 in STATE_OWNERS.values():
                    allowed.update(s2["writers"])
                if f.qualname in allowed:
                    chk.ok("C03.state", hits[0][0], f"parse-state attribute .{attr} written by {f.qualname} ({allowed[f.qualname]})")
                else:
                    chk.violation("C03.state", hits[0][0], K.short(K.stmt_of(hits[0][0])), f"writer {f.qualname}",
                                  f"parse-state attribute .{attr} is written outside the parser's own methods")
    # nobody outside the parser reaches into its state: `<x>._parser.<state attr> = ...` in the protocol modules
    state_attrs = {a for sp in STATE_OWNERS.values() for a in sp["attrs"]}
    for rel in ("aiohttp/web_protocol.py", "aiohttp/client_proto.py", "aiohttp/base_protocol.py"):
        for fn in repo.module(rel).functions.values():
            for n in ast.walk(fn.node):
                tgts = []
                if isinstance(n, ast.Assign):
                    tgts = n.targets
                elif isinstance(n, (ast.AugAssign, ast.AnnAssign)):
                    tgts = [n.target]
                for t in tgts:
                    if isinstance(t, ast.Attribute) and t.attr in state_attrs and "_parser" in norm.raw(t.value):
                        chk.violation("C03.state", n, K.short(n), f"writer {fn.qualname}", f"parse-state attribute .{t.attr} of the parser is written from {rel}")
    chk.ok("C03.state", (f"{MOD}:<module>", 0), "no protocol module assigns to the parser's state attributes")
    # C03.save: whenever the loop is left with the local buffer emptied, the unconsumed bytes were stored first
    n_save = 0
    for st, _b in K.stmts(hp, "data = EMPTY"):
        blk = PC._block_of(st)
        prior = blk[: blk.index(st)]
        # (the stored value may reach the attribute through a local that was measured first: `tail = data[start_pos:] ... self._tail = tail`)
        if any(isinstance(p, ast.Assign) and "self._tail" in norm.raw(p.targets[0]) and M.contains(norm.subst(p.value, p), "data[$S:]") for p in prior):
            chk.ok("C03.save", st, "unconsumed input `data[start_pos:]` is stored in self._tail before the local buffer is dropped")
            n_save += 1
        elif not K.loop_ancestors(st):
            # `else: data = EMPTY` after the loop (nothing left) is fine when guarded by the emptiness test
            lits = [l for c in PC.pc(st, raw=True) for l in c]
            if any(l.text == "data" for l in lits) and any(" < " in l.text for l in lits):
                chk.ok("C03.save", st, "after the loop the buffer is dropped only when nothing is left (`not (data and start_pos < data_len)`)")
            else:
                chk.violation("C03.save", st, "data = EMPTY", "guard `data and start_pos < data_len`", "the unconsumed remainder is dropped when the loop is left")
        else:
            chk.violation("C03.save", st, "data = EMPTY", "self._tail = data[start_pos:]", "inside the parse loop the local buffer is dropped without storing the unconsumed input: the partial line is lost")
    chk.expect_count("C03.save", n_save, 2, "`self._tail = data[start_pos:]; data = EMPTY` pairs")
    for st, _b in K.stmts(pp, "return PayloadState.PAYLOAD_NEEDS_INPUT, b''"):
        pass
    n_ct = 0
    for rnode in [n for n in ast.walk(pp.node) if isinstance(n, ast.Return)]:
        # returns inside the `no line ending found` branches must store the partial line
        cl = PC.pc(rnode)
        if PC.has_lit(cl, "pos < 0", True) is not None or (PC.has_lit(cl, "pos < 0", False) is None and PC.has_lit(cl, "self._chunk == ChunkState.PARSE_CHUNKED_SIZE", True) is not None and any(isinstance(x, ast.If) and "pos >= 0" in norm.raw(x.test) for x in prog.enclosing(rnode, (ast.If,)))):
            blk = PC._block_of(rnode)
            prior = blk[: blk.index(rnode)]
            if any(isinstance(p, ast.Assign) and norm.raw(p.targets[0]) == "self._chunk_tail" and norm.raw(p.value) == "chunk" for p in prior):
                chk.ok("C03.save", rnode, "a partial chunk-size/trailer line is stored in self._chunk_tail before asking for more input")
                n_ct += 1
            else:
                chk.violation("C03.save", rnode, K.short(rnode), "self._chunk_tail = chunk", "a partial line is dropped when more input is requested")
    chk.expect_count("C03.save", n_ct, 2, "partial-line saves in the body parser")
    # the input buffer itself is only ever extended at the front by the saved tail or consumed from the front
    nb = 0
    for fn, attr, buf in ((hp, "_tail", "data"), (pp, "_chunk_tail", "chunk")):
        for n in ast.walk(fn.node):
            if not isinstance(n, ast.Assign):
                continue
            pairs = []
            for t in n.targets:
                if isinstance(t, ast.Tuple) and isinstance(n.value, ast.Tuple) and len(t.elts) == len(n.value.elts):
                    pairs += list(zip(t.elts, n.value.elts))
                elif isinstance(t, ast.Tuple):
                    pairs += [(e, None) for e in t.elts]
                else:
                    pairs.append((t, n.value))
            for t, v in pairs:
                if not (isinstance(t, ast.Name) and t.id == buf):
                    continue
                nb += 1
                if v is None:
                    chk.ok("C03.bufshape", n, f"`{buf}` <- remainder returned by `{K.short(n.value, 50)}`")
                    continue
                vt = norm.raw(v)
                suffix = isinstance(v, ast.Subscript) and norm.raw(v.value) in (buf, f"bytes({buf})", f"memoryview({buf})") and isinstance(v.slice, ast.Slice) and v.slice.upper is None and v.slice.step is None
                empty = (isinstance(v, ast.Constant) and v.value in (b"", "")) or vt in ("EMPTY",)
                if suffix or empty or vt == f"self.{attr} + {buf}" or vt in (f"bytes({buf})", f"memoryview({buf})"):
                    chk.ok("C03.bufshape", n, f"`{buf}` <- `{vt}`: " + ("consumed from the front" if suffix else "saved tail prepended" if "+" in vt else "emptied / same bytes"))
                else:
                    chk.violation("C03.bufshape", n, K.short(n), f"{buf} = {buf}[<offset>:] | self.{attr} + {buf}",
                                  f"the unconsumed input `{buf}` is rewritten to `{vt}`: bytes in the middle or at the end of the buffer are dropped, so what the next call sees (and what the line limits count) depends on where the read ended")
    chk.expect_count("C03.bufshape", nb, 12, "assignments to the input buffer in the two resumable parsers")
    for fn, attr, buf in ((hp, "_tail", "data"), (pp, "_chunk_tail", "chunk")):
        for n in ast.walk(fn.node):
            vals = []
            if isinstance(n, ast.Assign):
                for t in n.targets:
                    if isinstance(t, ast.Tuple) and isinstance(n.value, ast.Tuple):
                        vals += [v for tt, v in zip(t.elts, n.value.elts) if norm.raw(tt) == f"self.{attr}"]
                    elif norm.raw(t) == f"self.{attr}":
                        vals.append(n.value)
            for v in vals:
                v = norm.subst(v, n)  # a single-definition local stands for its value
                t = norm.raw(v)
                suffix = isinstance(v, ast.Subscript) and isinstance(v.value, ast.Name) and v.value.id == buf and isinstance(v.slice, ast.Slice) and v.slice.upper is None and v.slice.step is None
                if (isinstance(v, ast.Constant) and not v.value) or t == buf or suffix:
                    chk.ok("C03.save", n, f"self.{attr} <- `{t}`: the whole unconsumed remainder of the buffer")
                else:
                    chk.violation("C03.save", n, K.short(n), f"self.{attr} = {buf} | {buf}[<offset>:]",
                                  f"only part of the unconsumed input is saved in self.{attr}: the dropped bytes (e.g. the CR of a CRLF that straddles the read boundary, or bytes counted by the line limit) are missing when the next read continues the line")
    latch_rule(chk, repo)
    connect_rule(chk, repo)
    progress_rule(chk, repo)
    agree_rule(chk, repo)
    batch_rule(chk, repo)
    linelen_rule(chk, repo)
    peek_rule(chk, repo)
    partial_reject_rule(chk, hp, "_tail")
    partial_reject_rule(chk, pp, "_chunk_tail")
    # whether a compressed body is accepted as complete must not depend on where the reads fell: the decoder's member-boundary flag is
    # decided after the last input of a call was fed (rule shared with C09)
    from rules import C09

    chk.include(C09.run, ("C09.complete",), ("C09.complete", "C03.complete"))


def latch_rule(chk, repo, rule="C03.latch"):
    """One-shot decisions are taken on data, not on call boundaries: in a feed function, a latch `if not self.X ...: <inspect the
    buffer>; self.X = True` may be consumed only by a non-empty buffer - an empty feed (a read boundary right before the first byte)
    carries no data to decide on, and consuming the latch there makes the outcome depend on the segmentation."""
    n = 0
    for rel, cname in ((MOD, "HttpParser"), (MOD, "HttpPayloadParser"), (MOD, "DeflateBuffer"), ("aiohttp/_websocket/reader_py.py", "WebSocketReader"), ("aiohttp/multipart.py", "MultipartResponseWrapper")):
        try:
            cls = repo.cls(rel, cname)
        except AnalysisError:
            continue
        for name in ("feed_data", "_feed_data"):
            fn = cls.methods.get(name)
            if fn is None:
                continue
            params = [a.arg for a in fn.node.args.args if a.arg != "self"]
            if not params:
                continue
            buf = params[0]
            for a in ast.walk(fn.node):
                if not (isinstance(a, ast.Assign) and len(a.targets) == 1 and isinstance(a.targets[0], ast.Attribute) and norm.raw(a.targets[0]).startswith("self.")
                        and isinstance(a.value, ast.Constant) and a.value.value is True):
                    continue
                attr = norm.raw(a.targets[0])
                pc = PC.pc(a)
                if PC.has_lit(pc, attr, False) is None:
                    continue
                # the region governed by the latch: the innermost `if` whose test mentions the latch
                region = next((i for i in prog.enclosing(a, (ast.If,)) if attr in norm.raw(i.test)), None)
                if region is None or not any(x is a for x in region.body):
                    continue  # a state transition deep inside a dispatch branch is not a one-shot latch (covered by the RP rules)
                inspects = any(isinstance(x, ast.Subscript) and isinstance(x.value, ast.Name) and (x.value.id == buf or any(v is not None and isinstance(v, ast.Subscript) and norm.raw(v.value) == buf for _d, v in norm.fn_defs(fn.node).defs.get(x.value.id, [])))
                               for x in ast.walk(region))
                if not inspects:
                    continue
                n += 1
                if PC.has_lit(pc, [(buf, True), (f"len({buf})", True), (f"len({buf}) > 0", True), (f"len({buf}) >= 1", True)], True) is not None:
                    chk.ok(rule, a, f"{cname}.{name}(): the one-shot latch `{attr}` is consumed only by a non-empty `{buf}`")
                else:
                    chk.violation(rule, a, K.short(a), f"({buf})", f"{cname}.{name}(): the one-shot latch `{attr}` guards a decision made by inspecting `{buf}`, but an empty `{buf}` also consumes it: when a read boundary falls right before the first byte the decision is skipped for good",
                                  path_condition=norm.fmt_cnf(pc))
    chk.expect_count(rule, n, 1, "one-shot latches that inspect the fed buffer")


def connect_rule(chk, repo, rule="C03.connect"):
    """CONNECT: the parser installs a read-until-EOF payload *and* reports `upgraded`.  Bytes that arrive in the same read as the head reach
    that payload (the parser feeds them); the server protocol must route later reads there too, otherwise the tunnel payload the handler sees
    depends on where the read boundary fell."""
    dr = repo.func("aiohttp/web_protocol.py", "RequestHandler.data_received")
    stores = [a for a in ast.walk(dr.node) if isinstance(a, ast.AugAssign) and norm.raw(a.target) == "self._message_tail"]
    if not stores:
        chk.analysis_error("C03.connect: `self._message_tail += data` not found in RequestHandler.data_received")
    for a in stores:
        txt = norm.fmt_cnf(PC.pc(a, raw=True))
        if "_payload_parser" in txt.replace("self._payload_parser is None", "") or "has_payload" in txt or "feed_payload" in norm.raw(dr.node):
            chk.ok(rule, a, "bytes that follow an upgraded request are buffered only when the parser does not own a payload stream for it")
        else:
            chk.violation(rule, a, "self._message_tail += data", "!(the parser still owns the payload stream of the upgraded request)",
                          "after CONNECT the parser owns a read-until-EOF payload, but data_received() sends every later read to _message_tail: tunnel bytes in the same read as the head reach request.content, bytes in later reads never do - the payload depends on the cut and the handler waits for ever",
                          path_condition=txt[:300])


def progress_rule(chk, repo, rule="C03.progress"):
    """A resumable parser may only ask for more input with everything it has consumed in this state recorded: on a path from the
    dispatch of a chunk state to `return PAYLOAD_NEEDS_INPUT` that consumed bytes from the front of the buffer (`chunk = chunk[k:]`), the
    parser state must have changed too.  Otherwise the consumption is forgotten at the read boundary and repeated after it - an *optional*
    element (the lax CR before the line ending) is then accepted twice when the read ends right after it, but only once in a single read."""
    pp = repo.func(MOD, "HttpPayloadParser.feed_data")
    g = cfg_of(pp.node)
    STATE = ("self._chunk", "self._chunk_size", "self._length")
    tests = [n for n in g.nodes if n.kind == "test" and n.in_finally_copy is None and M.match_text("self._chunk == $S", norm.raw(n.ast)) is not None]
    rets = [n for n in g.nodes if n.kind == "stmt" and isinstance(n.ast, ast.Return) and "PAYLOAD_NEEDS_INPUT" in norm.raw(n.ast) and n.in_finally_copy is None]
    if not tests or not rets:
        chk.analysis_error("C03.progress: chunk-state dispatch / need-input returns not found in the body parser")
        return

    def consumes(n):
        a = n.ast
        return n.kind == "stmt" and isinstance(a, ast.Assign) and len(a.targets) == 1 and isinstance(a.targets[0], ast.Name) and a.targets[0].id == "chunk" \
            and isinstance(a.value, ast.Subscript) and norm.raw(a.value.value) == "chunk" and isinstance(a.value.slice, ast.Slice) and a.value.slice.lower is not None and a.value.slice.upper is None

    NOT_PROGRESS = ("self._chunk_tail", "self._paused")  # the saved remainder and the flow-control flag record nothing about what was consumed

    def advances(n):
        a = n.ast
        if n.kind == "stmt" and isinstance(a, (ast.Assign, ast.AugAssign)):
            tg = a.targets if isinstance(a, ast.Assign) else [a.target]
            return any(norm.raw(t).startswith("self._") and norm.raw(t) not in NOT_PROGRESS for t in tg)
        # parser state kept in a container: self._trailer_lines.append(line)
        return any(isinstance(c.func, ast.Attribute) and c.func.attr in prog.MUTATORS and norm.raw(c.func.value).startswith("self._") and norm.raw(c.func.value) not in NOT_PROGRESS for c in K.node_calls(n))

    bad = 0
    for t in tests:
        for c in [n for n in g.nodes if consumes(n) and n.in_finally_copy is None]:
            # t -(T)-> ... c ... -> return, never passing a state assignment and never passing another state dispatch
            p1 = g.find_path(None, lambda n, c=c: n is c, lambda n: advances(n) or (n in tests), EXPLICIT, [(t, "T")])
            if p1 is None:
                continue
            p2 = g.find_path([c], lambda n: n in rets, lambda n: advances(n) or (n in tests), EXPLICIT)
            if p2 is not None:
                bad += 1
                chk.violation(rule, c.ast, K.short(c.ast), "a state change (or no consumption) before asking for more input",
                              f"in state `{norm.raw(t.ast)}` bytes are taken from the front of the buffer and the parser may then return `need more input` without recording it: after the read boundary the same optional element is consumed again (lax mode: `abc\\\\r` | `\\\\r\\\\n` is accepted, `abc\\\\r\\\\r\\\\n` in one read is refused)",
                              path=g.fmt_path(p1 + p2[1:]))
    if not bad:
        chk.ok(rule, pp, f"in each of the {len(tests)} chunk states, every path that consumes bytes and then asks for more input has advanced the parser state")


def _normalisers(fn_node, site, name: str):
    """Whitespace normalisations applied to local `name` before `site`, each with whether it is conditional on lax mode: assignments
    `name = <expr with .strip()/.lstrip()/.rstrip()>` that precede (an ancestor statement of) the site in the same statement list, either
    directly or as the body of an `if <lax>:` in that list."""
    out = set()
    before = []  # statements that precede the site in one of its enclosing statement lists
    n = K.stmt_of(site)
    while n is not None and n is not fn_node:
        blk = PC._block_of(n)
        if blk and n in blk:
            before.extend(blk[:blk.index(n)])
        n = getattr(n, "parent", None)
        while n is not None and n is not fn_node and not isinstance(n, ast.stmt):
            n = getattr(n, "parent", None)
    for b in before:
        cands = []
        if isinstance(b, ast.Assign):
            cands.append((b, False))
        elif isinstance(b, ast.If) and "_lax" in norm.raw(b.test) and not b.orelse:
            cands.extend((x, True) for x in b.body if isinstance(x, ast.Assign))
        for st, guard in cands:
            if not (len(st.targets) == 1 and isinstance(st.targets[0], ast.Name) and st.targets[0].id == name):
                continue
            for c in ast.walk(st.value):
                if isinstance(c, ast.Call) and isinstance(c.func, ast.Attribute) and c.func.attr in ("strip", "lstrip", "rstrip"):
                    arg = norm.raw(c.args[0]) if c.args else ""
                    out.add((c.func.attr, arg, "lax" if guard else "always"))
    return out


def agree_rule(chk, repo, rule="C03.agree"):
    """Sibling validation sites agree: when the same grammar (regex constant) is applied to the same token at more than one place of a
    resumable parser - typically once on the complete line and once, early, on the part that has arrived - the lax-mode whitespace
    normalisation in front of the check must be the same at every site; otherwise a token the complete-line path accepts is refused when the
    line is split by the transport (or the other way round)."""
    pp = repo.func(MOD, "HttpPayloadParser.feed_data")
    sites = {}
    for c in prog.calls_in(pp.node):
        f = norm.raw(c.func)
        if f == "re.fullmatch" and len(c.args) >= 2:
            gname, arg = norm.raw(c.args[0]), c.args[1]
        elif isinstance(c.func, ast.Attribute) and c.func.attr == "fullmatch" and c.args and f != "re.fullmatch":
            gname, arg = norm.raw(c.func.value), c.args[0]
        else:
            continue
        sites.setdefault(gname, []).append((c, arg))
    n = 0
    for gname, lst in sorted(sites.items()):
        sigs = []
        for c, arg in lst:
            n += 1
            nm = arg.id if isinstance(arg, ast.Name) else None
            sig = _normalisers(pp.node, c, nm) if nm else set()
            inline = {(x.func.attr, norm.raw(x.args[0]) if x.args else "", "always") for x in ast.walk(arg) if isinstance(x, ast.Call) and isinstance(x.func, ast.Attribute) and x.func.attr in ("strip", "lstrip", "rstrip")}
            sigs.append((c, frozenset(s_ for s_ in (sig | inline) if s_[1] == "")))  # only argument-less (whitespace) stripping is a grammar difference
        ref = sigs[0][1]
        diff = [(c, sg) for c, sg in sigs[1:] if sg != ref]
        if diff:
            c, sg = diff[0]
            chk.violation(rule, c, K.short(c), f"same normalisation as line {sigs[0][0].lineno}: {sorted(ref) or 'none'}",
                          f"`{gname}` is checked at {len(lst)} places of the body parser under different whitespace normalisation ({sorted(ref) or 'none'} vs {sorted(sg) or 'none'}): "
                          "what the complete-line path accepts (lax mode strips blanks around the chunk size) the other path refuses, so the same bytes are accepted or rejected depending on where the transport split the line")
        else:
            chk.ok(rule, lst[0][0], f"`{gname}`: {len(lst)} validation site(s), one normalisation {sorted(ref) or '(none)'}")
    chk.expect_count(rule, n, 1, "regex validations in HttpPayloadParser.feed_data")


def batch_rule(chk, repo, rule="C03.batch"):
    """Messages completed before a malformed one are produced however the stream was cut: feed_data() collects the messages of one read in a
    local list and raises on the first malformed one, so the caller's error path has to get that list from somewhere (known finding F122)."""
    WP = "aiohttp/web_protocol.py"
    dr = repo.func(WP, "RequestHandler.data_received")
    feeds = [c for c in prog.calls_in(dr.node) if norm.raw(c.func) == "self._parser.feed_data"]
    if not feeds:
        chk.analysis_error("C03.batch: RequestHandler.data_received no longer feeds the request parser")
        return
    for c in feeds:
        hs = [h for _t, h in K.enclosing_try_handlers(c) if "HttpProcessingError" in PC.handler_types(h)]
        subst = [a for h in hs for a in ast.walk(h) if isinstance(a, ast.Assign) and norm.raw(a.targets[0]) == "messages"]
        if not hs or not subst:
            chk.analysis_error("C03.batch: the error path that substitutes the 400 message was not found")
            continue
        en = hs[0].name
        carried = any(isinstance(x, ast.Starred) or (isinstance(x, ast.Attribute) and isinstance(x.value, ast.Name) and x.value.id == en and x.attr not in ("message", "code", "headers", "args"))
                      for a in subst for x in ast.walk(a.value))
        if carried:
            chk.ok(rule, subst[0], "the requests parsed in the same read before the malformed one are queued in front of the 400")
        else:
            chk.violation(rule, subst[0], "messages = [<400 _ErrInfo>]", "the messages the parser completed before the error, in front of the _ErrInfo",
                          "when a read holds valid requests followed by a malformed message, HttpParser.feed_data raises and its local list of completed messages is lost: the handler is never invoked and only the 400 is sent, while the same bytes in two reads get the requests handled (200) and then the 400 - which requests are produced depends on the segmentation")


def linelen_rule(chk, repo, rule="C03.linelen"):
    """Lax (LF-terminated) parsing: a complete line and a partial line are measured by the same rule.  While a line is incomplete its length is
    counted with exactly one trailing CR discounted (it may be the first half of the line ending); the complete-line path must discount the
    same - measuring the line after *all* trailing CRs were stripped accepts `<limit bytes>\\r\\r\\n` in one read and refuses it when the read
    ends between the CRs and the LF."""
    n = 0
    for q in ("HttpParser.feed_data", "HttpPayloadParser.feed_data"):
        fn = repo.func(MOD, q)
        for r, cname in K.raises_in(fn.node):
            if cname != "LineTooLong":
                continue
            for l in PC.units(PC.pc(r, raw=True)):
                b = M.match_text("$A > $L", l.text) if l.pos else None
                if b is None:
                    continue
                a = b["A"]
                if not (isinstance(a, ast.Call) and norm.raw(a.func) == "len" and isinstance(a.args[0], ast.Name)):
                    continue
                v = a.args[0].id
                # is `v` a line whose trailing CRs were all stripped before this test?
                stripped = [x for x in ast.walk(fn.node) if isinstance(x, ast.Assign) and norm.raw(x.targets[0]) == v and norm.raw(x.value).replace('"', "'") == f"{v}.rstrip(b'\\r')" and x.lineno < r.lineno
                            and PC._block_of(K.stmt_of(r).parent if isinstance(K.stmt_of(r).parent, ast.If) else K.stmt_of(r)) is not None]
                same_blk = [x for x in stripped if any(x is y or any(x is z for z in ast.walk(y)) for y in (PC._block_of(K.stmt_of(r).parent) or []))]
                if same_blk:
                    n += 1
                    chk.violation(rule, r, f"len({v}) > limit after {v}.rstrip(b'\\r')", f"len({v}) - {v}.endswith(b'\\r') > limit (measured before the strip)",
                                  f"{q}: a complete lax line is measured after every trailing CR was stripped, a partial one with one CR discounted: a line of exactly the limit ended by `\\r\\r\\n` is accepted in one read and refused with LineTooLong when a read ends after the two CRs")
    if not n:
        chk.ok(rule, repo.func(MOD, "HttpParser.feed_data"), "complete lax lines are measured like partial ones (no length test on a line whose trailing CRs were all stripped first)")


def peek_rule(chk, repo, rule="C03.peek"):
    """An optional element is not consumed by peeking at what happens to be in the buffer: `if chunk.startswith(X): chunk = chunk[1:]` takes
    the element only when it arrived in the same read as what precedes it; when the read ends just before it, the next call sees it in
    another state (or at another offset) and treats it differently.  Accepted: a peek that also handles `not enough bytes yet`
    (compares the length of what it looked at, or asks for more input), or that only computes an offset without consuming."""
    pp = repo.func(MOD, "HttpPayloadParser.feed_data")
    n = bad = 0
    for a in [x for x in ast.walk(pp.node) if isinstance(x, ast.Assign) and norm.raw(x.targets[0]) == "chunk" and isinstance(x.value, ast.Subscript) and norm.raw(x.value.value) == "chunk"]:
        lits = [l for c in PC.pc(a, raw=True) if len(c) == 1 for l in c]
        peeks = [l for l in lits if l.pos and M.match_text("chunk.startswith($X)", l.text) is not None]
        if not peeks:
            continue
        n += 1
        guard = next((i for i in prog.enclosing(a, (ast.If,)) if any("startswith" in norm.raw(t_) for t_ in ast.walk(i.test))), None)
        handles_short = guard is not None and (bool(guard.orelse) or any("len(" in norm.raw(t_) for t_ in ast.walk(guard.test)))
        if handles_short:
            chk.ok(rule, a, "the peek also covers the case that the bytes are not there yet")
        else:
            bad += 1
            chk.violation(rule, a, K.short(a), "no consumption decided by a peek (or: handle the short read)",
                          f"`{peeks[0].text}` decides whether one byte is consumed, and is only true when that byte arrived in the same read: `0\\r\\n` + `\\rX-T: 1` in one read is accepted (the CR is skipped), with a read boundary after `0\\r\\n` the same bytes are refused with InvalidHeader")
    if not bad:
        chk.ok(rule, pp, f"no optional element is consumed on the strength of a peek ({n} peek-guarded consumption(s), all handling the short read)")
